"""Shared machinery of C10/C11/C13 (and the circuit comparison of C12): decomposition-rule instances and their evaluation.

* `registry_keys()`               the decomposition registry, read at run time
* `instance_exprs(key, tier)`     operator instances for a registry key as *python expression strings* (the replay artefact is
                                  readable: ``qp.CRX(A[0], wires=[0, 1])``): generic recipe for fixed-arity gates, hand-written
                                  recipes (HAND) for templates, symbolic wrappers (Adjoint/Pow/C) generated from the base recipes;
                                  ``CAT:<json>`` expressions are instances of the shared catalogue mc/x_catalog.py (optional source)
* `build(expr)` / `instance(expr)` expression -> live operator (pure function of the string) / + its rules (per-process cache)
* `rules_for(op)`                 every rule the graph system considers for `op` (registered + generic symbolic rules), by name
* `emit(op, rule)`                record the rule, return the queue
* `Layout(op, queue)`             wire bookkeeping: op.wires + user supplied work wires + dynamically allocated wires, peak allocations
* `reference_columns(op, zero)`   what a rule has to implement: SEMANTIC reference written from the documentation (arithmetic, QFT,
                                  Select, QROM, ...), the operator's matrix (closed forms of mc.refgates where available), the
                                  prepared state, or - weakest - the operator's own legacy decomposition
* `verify_unitary / verify_branches / verify_circuit`  the oracles of C10 / C13 / C12
* `enumerate_cases(tier)`         complete list of {"key", "expr", "rule"} specs + coverage bookkeeping (uncovered keys, rules never
                                  listed, unbuildable recipes)

No randomness anywhere: every parameter comes from the fixed tables below.
"""
import cmath
import math
import re

import numpy as np

# ------------------------------------------------------------------------------------------------ fixed data
A = [0.3731, -1.2172, 2.9047, 4.4113, -0.6421, 1.9093, 0.1187, -2.3309, 5.6012, 0.7771, -3.0119, 1.0457]
PI = math.pi
# wire-label pools: plain ints, strings, mixed & unsorted
POOLS = [
    list(range(40)),
    ["a", "b", "c", "d", "e", "f", "g", "h", "i", "j", "k", "l", "m", "n", "o", "p", "q", "r", "s", "t", "u", "v"],
    [3, "q", 0, 7, "b1", 2, 11, "z", 5, 1, "aa", 9, 4, "m", 8, 6, 10, "y", 13, 12, "x", 14],
]


def UN(n, i=0):
    """Deterministic generic n-qubit unitary number i (exp of a fixed Hermitian matrix); special forms for i<0."""
    d = 2 ** n
    if i == -1:
        return np.eye(d, dtype=complex)
    if i == -2:  # diagonal
        return np.diag(np.exp(1j * np.array([math.sin(1.7 * k + 0.3) * 2.5 for k in range(d)])))
    if i == -3:  # permutation with phases
        M = np.zeros((d, d), dtype=complex)
        for k in range(d):
            M[(k + 1) % d, k] = cmath.exp(0.4j * k)
        return M
    if i == -4:  # real orthogonal, det -1 (reflection)
        v = np.array([math.cos(0.9 * k + 0.2) for k in range(d)])
        v = v / np.linalg.norm(v)
        return (np.eye(d) - 2 * np.outer(v, v)).astype(complex)
    if i == -5:  # special unitary
        U = UN(n, 3)
        return U / np.linalg.det(U) ** (1 / d)
    j, k = np.meshgrid(np.arange(d), np.arange(d), indexing="ij")
    H = np.sin(1.3 * j + 2.1 * k + 0.7 * i + 0.1) + 1j * np.cos(0.9 * j - 1.7 * k + 1.1 * i)
    H = (H + H.conj().T) / 2
    w, V = np.linalg.eigh(H)
    return (V * np.exp(1j * w)) @ V.conj().T


def SV(n, i=0):
    """Deterministic n-qubit state vector number i; special forms for i<0."""
    d = 2 ** n
    k = np.arange(d)
    if i == -1:
        v = np.zeros(d, dtype=complex)
        v[d - 2 if d > 1 else 0] = 1
        return v
    if i == -2:  # real non-negative
        v = np.abs(np.sin(0.7 * k + 0.4)) + 0.1
    elif i == -3:  # sparse with zeros and phases
        v = np.where(k % 3 == 0, 0, np.exp(1j * (0.8 * k + 0.3)) * (1 + 0.3 * k))
        if not np.any(v):
            v = np.ones(d)
    elif i == -4:  # uniform with signs
        v = np.where(k % 2 == 0, 1.0, -1.0).astype(complex)
    else:
        v = (np.sin(1.1 * k + 0.5 + i) + 0.2) + 1j * np.cos(0.6 * k - 0.3 + 2 * i)
    v = np.asarray(v, dtype=complex)
    return v / np.linalg.norm(v)


def DG(n, i=0):
    """unit-modulus diagonal of length 2**n."""
    k = np.arange(2 ** n)
    if i == -1:
        return np.ones(2 ** n, dtype=complex)
    if i == -2:
        return np.where(k % 2 == 0, 1, -1).astype(complex)
    return np.exp(1j * (np.sin(1.9 * k + 0.4 + i) * 2.2))


def HERM(n, i=0):
    U = UN(n, i)
    return (U + U.conj().T) / 2


_SUBS = {}


def SUB(i):
    """two fixed Subroutine definitions (SubroutineOp instances are created with .operator(...))."""
    if i in _SUBS:
        return _SUBS[i]
    from functools import partial

    import pennylane as qp
    from pennylane.templates import Subroutine

    if i == 0:
        def res(x, y, wires):  # pylint: disable=unused-argument
            return {qp.RX: 1, qp.RY: 1, qp.CNOT: 2}

        @partial(Subroutine, compute_resources=res)
        def ChainTemplate(x, y, wires):
            qp.RX(x, wires[0])
            qp.CNOT([wires[0], wires[1]])
            qp.RY(y, wires[0])
            qp.CNOT([wires[1], wires[0]])

        _SUBS[i] = ChainTemplate
    else:
        def res2(x, wires, pauli_word):  # pylint: disable=unused-argument
            from pennylane.typing import Float, Wire

            return {qp.PauliRot(Float, pauli_word=pauli_word, wires=Wire[len(pauli_word)]): 1, qp.Hadamard: 1}

        @partial(Subroutine, static_argnames="pauli_word", compute_resources=res2)
        def WordTemplate(x, wires, pauli_word):
            qp.Hadamard(wires[0])
            qp.PauliRot(x, pauli_word, wires)

        _SUBS[i] = WordTemplate
    return _SUBS[i]


def _ns():
    import importlib

    import pennylane as qp

    return {"LabelledOp": importlib.import_module("pennylane.drawer.label").LabelledOp,
            "MarkedOp": importlib.import_module("pennylane.fourier.mark").MarkedOp, "SUB": SUB,
            "qp": qp, "np": np, "A": A, "PI": PI, "UN": UN, "SV": SV, "DG": DG, "HERM": HERM, "math": math, "WT": WT, "UD": UD}


_NS = None


def build(expr):
    """expression string -> live operator."""
    global _NS
    if _NS is None:
        _NS = _ns()
    import pennylane as qp

    with qp.queuing.QueuingManager.stop_recording():
        if expr.startswith("CAT:"):  # instance of the shared operator catalogue (mc/x_catalog.py), JSON spec after the prefix
            import json

            from mc import x_catalog

            return x_catalog.build(json.loads(expr[4:]))
        return eval(expr, dict(_NS))  # noqa: S307 - expressions come from the tables in this file only


# ------------------------------------------------------------------------------------------------ registry
def registry():
    import pennylane as qp  # noqa: F401  (populates the registry)
    from pennylane.decomposition.decomposition_rule import _decompositions_private

    return _decompositions_private


def registry_keys():
    return sorted(k for k, v in registry().items() if len(v))


def find_class(name):
    import pennylane as qp
    from pennylane.core.operator import Operator1, Operator2

    for mod in (qp, qp.ops, qp.templates, qp.ops.op_math):
        c = getattr(mod, name, None)
        if isinstance(c, type):
            return c

    def allsub(c):
        for s in c.__subclasses__():
            yield s
            yield from allsub(s)

    for base in (Operator1, Operator2):
        for s in allsub(base):
            if s.__name__ == name:
                return s
    return None


SYMB = re.compile(r"^(Adjoint|Pow|C)\((\w+)\)$")

# ------------------------------------------------------------------------------------------------ instance recipes
# {W} is replaced by a wire-label list literal of the needed length ({W3} = first three labels of the pool,
# {W2:5} = labels 2,3,4). Angles are written A[i].  First `q` entries of a recipe are the quick tier.

def _w(pool, a, b=None):
    if b is None:
        a, b = 0, a
    return repr(POOLS[pool][a:b])


def _subst(tmpl, pool):
    def rep(m):
        a = int(m.group(1))
        b = m.group(2)
        if b is None:
            return _w(pool, a)
        return _w(pool, a, int(b))

    out = re.sub(r"\{W(\d+)(?::(\d+))?\}", rep, tmpl)

    def rep1(m):
        return repr(POOLS[pool][int(m.group(1))])

    return re.sub(r"\{w(\d+)\}", rep1, out)


# hand recipes: name -> (list of templates, number that belong to the quick tier)
HAND = {}


def hand(name, quick, *tmpls):
    HAND[name] = (list(tmpls), quick)


# --- non-parametric / parametric gates with variable arity or hyper-parameters
hand("Identity", 2, "qp.Identity({W1})", "qp.Identity({W3})", "qp.Identity([])")
hand("GlobalPhase", 2, "qp.GlobalPhase(A[0])", "qp.GlobalPhase(A[1], wires={W2})", "qp.GlobalPhase(A[2], wires={W1})")
hand("MultiRZ", 3, "qp.MultiRZ(A[0], wires={W1})", "qp.MultiRZ(A[1], wires={W3})", "qp.MultiRZ(A[2], wires={W2})",
     "qp.MultiRZ(A[3], wires={W4})")
hand("PauliRot", 4, "qp.PauliRot(A[0], 'XYZ', wires={W3})", "qp.PauliRot(A[1], 'IZ', wires={W2})", "qp.PauliRot(A[2], 'Y', wires={W1})",
     "qp.PauliRot(A[3], 'II', wires={W2})", "qp.PauliRot(A[4], 'XIYZ', wires={W4})", "qp.PauliRot(A[5], 'ZZ', wires={W2})",
     "qp.PauliRot(A[6], 'X', wires={W1})")
hand("PCPhase", 3, "qp.PCPhase(A[0], dim=2, wires={W2})", "qp.PCPhase(A[1], dim=3, wires={W2})", "qp.PCPhase(A[2], dim=5, wires={W3})",
     "qp.PCPhase(A[3], dim=0, wires={W2})", "qp.PCPhase(A[4], dim=4, wires={W2})", "qp.PCPhase(A[5], dim=1, wires={W1})",
     "qp.PCPhase(A[6], dim=7, wires={W3})", "qp.PCPhase(A[7], dim=6, wires={W3})")
hand("QubitUnitary", 6, "qp.QubitUnitary(UN(1,0), wires={W1})", "qp.QubitUnitary(UN(2,1), wires={W2})", "qp.QubitUnitary(UN(3,2), wires={W3})",
     "qp.QubitUnitary(UN(1,-2), wires={W1})", "qp.QubitUnitary(UN(2,-3), wires={W2})", "qp.QubitUnitary(UN(1,-4), wires={W1})",
     "qp.QubitUnitary(UN(1,-1), wires={W1})", "qp.QubitUnitary(UN(2,-1), wires={W2})", "qp.QubitUnitary(UN(2,-4), wires={W2})",
     "qp.QubitUnitary(UN(2,-5), wires={W2})", "qp.QubitUnitary(np.kron(UN(1,0),UN(1,1)), wires={W2})", "qp.QubitUnitary(UN(2,-2), wires={W2})",
     "qp.QubitUnitary(UN(1,-3), wires={W1})", "qp.QubitUnitary(UN(3,-3), wires={W3})", "qp.QubitUnitary(qp.matrix(qp.CNOT([0,1])), wires={W2})",
     "qp.QubitUnitary(qp.matrix(qp.SWAP([0,1])), wires={W2})", "qp.QubitUnitary(qp.matrix(qp.IsingXX(A[0],[0,1])), wires={W2})")
hand("DiagonalQubitUnitary", 3, "qp.DiagonalQubitUnitary(DG(1,0), wires={W1})", "qp.DiagonalQubitUnitary(DG(2,1), wires={W2})",
     "qp.DiagonalQubitUnitary(DG(3,2), wires={W3})", "qp.DiagonalQubitUnitary(DG(2,-1), wires={W2})", "qp.DiagonalQubitUnitary(DG(2,-2), wires={W2})")
hand("ControlledQubitUnitary", 6,
     "qp.ControlledQubitUnitary(UN(1,0), wires={W2})",
     "qp.ControlledQubitUnitary(UN(1,1), wires={W3}, control_values=[0,1])",
     "qp.ControlledQubitUnitary(UN(2,2), wires={W3})",
     "qp.ControlledQubitUnitary(UN(1,-5), wires={W4}, control_values=[1,0,1])",
     "qp.ControlledQubitUnitary(UN(2,0), wires={W4}, control_values=[0,0])",
     "qp.ControlledQubitUnitary(UN(1,2), wires={W4}, work_wires={W4:5}, work_wire_type='zeroed')",
     "qp.ControlledQubitUnitary(UN(1,-2), wires={W2}, control_values=[0])",
     "qp.ControlledQubitUnitary(UN(1,-4), wires={W3})",
     "qp.ControlledQubitUnitary(UN(1,3), wires={W5}, control_values=[1,1,0,1])",
     "qp.ControlledQubitUnitary(UN(1,3), wires={W5}, work_wires={W5:7}, work_wire_type='borrowed')",
     "qp.ControlledQubitUnitary(UN(1,-5), wires={W3})",
     "qp.ControlledQubitUnitary(UN(3,1), wires={W4})",
     "qp.ControlledQubitUnitary(UN(2,-2), wires={W5}, control_values=[1,0,0])")
hand("TemporaryAND", 2, "qp.TemporaryAND({W3})", "qp.TemporaryAND({W3}, control_values=[0,1])", "qp.TemporaryAND({W3}, control_values=[0,0])",
     "qp.TemporaryAND({W3}, control_values=[1,0])")
hand("MultiControlledX", 8,
     "qp.MultiControlledX(wires={W2})", "qp.MultiControlledX(wires={W3}, control_values=[0,1])",
     "qp.MultiControlledX(wires={W4}, control_values=[1,0,1])",
     "qp.MultiControlledX(wires={W4}, work_wires={W4:5}, work_wire_type='zeroed')",
     "qp.MultiControlledX(wires={W4}, control_values=[0,1,1], work_wires={W4:5}, work_wire_type='borrowed')",
     "qp.MultiControlledX(wires={W5}, control_values=[1,0,0,1])",
     "qp.MultiControlledX(wires={W5}, work_wires={W5:7}, work_wire_type='borrowed')",
     "qp.MultiControlledX(wires={W5}, control_values=[0,1,1,0], work_wires={W5:7}, work_wire_type='zeroed')",
     "qp.MultiControlledX(wires={W3}, work_wires={W3:4}, work_wire_type='zeroed')",
     "qp.MultiControlledX(wires={W3}, control_values=[0,0], work_wires={W3:4}, work_wire_type='borrowed')",
     "qp.MultiControlledX(wires={W2}, control_values=[0])",
     "qp.MultiControlledX(wires={W6}, control_values=[1,1,0,1,1])",
     "qp.MultiControlledX(wires={W6}, work_wires={W6:9}, work_wire_type='zeroed')",
     "qp.MultiControlledX(wires={W6}, control_values=[0,1,0,1,1], work_wires={W6:9}, work_wire_type='borrowed')",
     "qp.MultiControlledX(wires={W6}, work_wires={W6:7}, work_wire_type='zeroed')",
     "qp.MultiControlledX(wires={W6}, work_wires={W6:8}, work_wire_type='borrowed')",
     "qp.MultiControlledX(wires={W7}, control_values=[1,0,1,1,0,1])")

def WT(shape, i=0):
    """deterministic weight tensor"""
    n = int(np.prod(shape)) if shape else 1
    return (np.sin(1.3 * np.arange(n) + 0.7 * i + 0.2) * 1.9).reshape(shape)


def UD(d, i=0):
    """deterministic d x d unitary (d need not be a power of two); i=-4 real orthogonal."""
    j, k = np.meshgrid(np.arange(d), np.arange(d), indexing="ij")
    if i == -4:
        K = np.sin(1.3 * j + 2.1 * k + 0.1)
        K = (K - K.T) / 2
        w, V = np.linalg.eigh(1j * K)
        return np.real((V * np.exp(-1j * w)) @ V.conj().T)
    H = np.sin(1.3 * j + 2.1 * k + 0.7 * i + 0.1) + 1j * np.cos(0.9 * j - 1.7 * k + 1.1 * i)
    H = (H + H.conj().T) / 2
    w, V = np.linalg.eigh(H)
    return (V * np.exp(1j * w)) @ V.conj().T


# --- templates (hand-written; wire registers are slices of the label pool)
hand("AQFT", 2, "qp.AQFT(order=1, wires={W3})", "qp.AQFT(order=2, wires={W4})", "qp.AQFT(order=0, wires={W3})", "qp.AQFT(order=1, wires={W4})")
hand("QFT", 3, "qp.QFT(wires={W1})", "qp.QFT(wires={W3})", "qp.QFT(wires={W2})", "qp.QFT(wires={W4})")
hand("Adder", 3, "qp.Adder(3, x_wires={W0:3}, mod=7, work_wires={W3:5})", "qp.Adder(5, x_wires={W3}, mod=8)",
     "qp.Adder(2, x_wires={W0:2}, mod=3, work_wires={W2:4})", "qp.Adder(-3, x_wires={W0:3}, mod=5, work_wires={W3:5})",
     "qp.Adder(1, x_wires={W2})", "qp.Adder(6, x_wires={W0:4}, mod=11, work_wires={W4:6})")
hand("PhaseAdder", 2, "qp.PhaseAdder(3, x_wires={W0:4}, mod=7, work_wire={W4:5})", "qp.PhaseAdder(5, x_wires={W3}, mod=8)",
     "qp.PhaseAdder(2, x_wires={W0:3}, mod=3, work_wire={W3:4})", "qp.PhaseAdder(1, x_wires={W2})")
hand("Multiplier", 2, "qp.Multiplier(3, x_wires={W0:3}, mod=7, work_wires={W3:8})", "qp.Multiplier(3, x_wires={W0:2}, mod=4, work_wires={W2:4})",
     "qp.Multiplier(2, x_wires={W0:2}, mod=3, work_wires={W2:6})", "qp.Multiplier(5, x_wires={W0:3}, mod=8, work_wires={W3:6})")
hand("OutAdder", 2, "qp.OutAdder({W0:2}, {W2:4}, {W4:6})", "qp.OutAdder({W0:2}, {W2:3}, {W3:6}, mod=5, work_wires={W6:8})",
     "qp.OutAdder({W0:1}, {W1:3}, {W3:5}, mod=3, work_wires={W5:7})", "qp.OutAdder({W0:2}, {W2:4}, {W4:7})")
hand("OutMultiplier", 2, "qp.OutMultiplier({W0:2}, {W2:4}, {W4:7})", "qp.OutMultiplier({W0:2}, {W2:3}, {W3:6}, mod=5, work_wires={W6:8})",
     "qp.OutMultiplier({W0:2}, {W2:4}, {W4:8}, output_wires_zeroed=True)", "qp.OutMultiplier({W0:1}, {W1:3}, {W3:5}, mod=3, work_wires={W5:7})",
     "qp.OutMultiplier({W0:2}, {W2:4}, {W4:8}, work_wires={W8:12})", "qp.OutMultiplier({W0:2}, {W2:4}, {W4:8}, work_wires={W8:12}, output_wires_zeroed=True)")
hand("ModExp", 1, "qp.ModExp({W0:1}, {W1:3}, 2, 3, {W3:7})", "qp.ModExp({W0:2}, {W2:4}, 3, 4, {W4:6})", "qp.ModExp({W0:2}, {W2:5}, 2, 7, {W5:10})")
hand("OutPoly", 2, "qp.OutPoly(lambda x, y: x * y + 1, input_registers=[{W0:2}, {W2:4}], output_wires={W4:7})",
     "qp.OutPoly(lambda x: x ** 2 + 3 * x, input_registers=[{W0:2}], output_wires={W2:5}, mod=7, work_wires={W5:7})",
     "qp.OutPoly(lambda x, y, z: x + y * z - 2 * x * y, input_registers=[{W0:1}, {W1:3}, {W3:4}], output_wires={W4:7})")
hand("OutSquare", 2, "qp.OutSquare({W0:2}, {W2:6}, {W6:10})", "qp.OutSquare({W0:2}, {W2:6}, {W6:10}, output_wires_zeroed=True)",
     "qp.OutSquare({W0:3}, {W3:7}, {W7:11})", "qp.OutSquare({W0:2}, {W2:5}, {W5:8})", "qp.OutSquare({W0:3}, {W3:9}, {W9:15}, output_wires_zeroed=True)")
hand("SignedOutSquare", 1, "qp.SignedOutSquare({W0:2}, {W2:6}, {W6:10})", "qp.SignedOutSquare({W0:2}, {W2:6}, {W6:10}, True)",
     "qp.SignedOutSquare({W0:3}, {W3:9}, {W9:15}, True)")
hand("SignedOutMultiplier", 1, "qp.SignedOutMultiplier({W0:2}, {W2:4}, {W4:8}, {W8:11})",
     "qp.SignedOutMultiplier({W0:2}, {W2:4}, {W4:8}, {W8:11}, output_wires_zeroed=True)",
     "qp.SignedOutMultiplier({W0:2}, {W2:5}, {W5:10}, {W10:14})")
hand("SemiAdder", 3, "qp.SemiAdder({W0:2}, {W2:4}, {W4:5})", "qp.SemiAdder({W0:3}, {W3:5}, {W5:6})", "qp.SemiAdder({W0:1}, {W1:2})",
     "qp.SemiAdder({W0:2}, {W2:5}, {W5:7})", "qp.SemiAdder({W0:1}, {W1:4}, {W4:6})", "qp.SemiAdder({W0:3}, {W3:6}, {W6:8})",
     "qp.SemiAdder({W0:2}, {W2:3})")
hand("Incrementer", 4, "qp.Incrementer({W3}, {W3:5})", "qp.Incrementer({W2}, {W2:7})", "qp.Incrementer({W3})", "qp.Incrementer({W4}, {W4:5})", "qp.Incrementer({W1})",
     "qp.Incrementer({W2})", "qp.Incrementer({W5}, {W5:8})", "qp.Incrementer({W4})")
hand("IntegerComparator", 4, "qp.IntegerComparator(2, geq=True, wires={W3})", "qp.IntegerComparator(3, geq=False, wires={W4})",
     "qp.IntegerComparator(5, geq=True, wires={W4}, work_wires={W4:6})", "qp.IntegerComparator(1, geq=False, wires={W3}, work_wires={W3:4})",
     "qp.IntegerComparator(0, geq=True, wires={W3})", "qp.IntegerComparator(0, geq=False, wires={W3})", "qp.IntegerComparator(4, geq=True, wires={W3})",
     "qp.IntegerComparator(9, geq=True, wires={W4})", "qp.IntegerComparator(7, geq=False, wires={W4})", "qp.IntegerComparator(1, geq=True, wires={W2})",
     "qp.IntegerComparator(6, geq=False, wires={W5}, work_wires={W5:7})")
hand("QubitCarry", 1, "qp.QubitCarry(wires={W4})")
hand("QubitSum", 1, "qp.QubitSum(wires={W3})")
hand("Permute", 3, "qp.Permute([{w2}, {w0}, {w1}], wires={W3})", "qp.Permute([{w4}, {w2}, {w0}, {w1}, {w3}], wires={W5})",
     "qp.Permute([{w1}, {w0}], wires={W2})", "qp.Permute([{w0}, {w1}, {w3}, {w2}], wires={W4})", "qp.Permute([{w3}, {w2}, {w1}, {w0}], wires={W4})")
hand("FlipSign", 3, "qp.FlipSign([1, 0], wires={W2})", "qp.FlipSign(5, wires={W3})", "qp.FlipSign([0, 0, 0], wires={W3})",
     "qp.FlipSign([1], wires={W1})", "qp.FlipSign(0, wires={W1})", "qp.FlipSign([1, 1, 1, 1], wires={W4})", "qp.FlipSign([0, 1, 1, 0], wires={W4})")
hand("GroverOperator", 2, "qp.GroverOperator(wires={W3})", "qp.GroverOperator(wires={W4}, work_wires={W4:6})", "qp.GroverOperator(wires={W2})",
     "qp.GroverOperator(wires={W5}, work_wires={W5:7})")
hand("Reflection", 2, "qp.Reflection(qp.Hadamard({w0}))", "qp.Reflection(qp.prod(qp.Hadamard({w0}), qp.RY(A[0], {w1})), A[1])",
     "qp.Reflection(qp.prod(qp.Hadamard({w0}), qp.RY(A[0], {w1}), qp.RX(A[2], {w2})), A[3], reflection_wires={W0:2})",
     "qp.Reflection(qp.QFT({W3}), PI)")
hand("AmplitudeAmplification", 2,
     "qp.AmplitudeAmplification(qp.prod(qp.Hadamard({w0}), qp.RY(A[0], {w1})), qp.FlipSign(2, wires={W2}), iters=2)",
     "qp.AmplitudeAmplification(qp.prod(qp.Hadamard({w0}), qp.Hadamard({w1})), qp.FlipSign(1, wires={W2}), iters=3, fixed_point=True, work_wire={w2})",
     "qp.AmplitudeAmplification(qp.Hadamard({w0}), qp.PauliZ({w0}), iters=1)",
     "qp.AmplitudeAmplification(qp.prod(qp.Hadamard({w0}), qp.RY(A[0], {w1}), qp.Hadamard({w2})), qp.FlipSign(1, wires={W2}), iters=2, reflection_wires={W2})")
hand("ControlledSequence", 2, "qp.ControlledSequence(qp.RX(A[0], wires={w3}), control={W3})", "qp.ControlledSequence(qp.CRY(A[1], wires={W2:4}), control={W2})",
     "qp.ControlledSequence(qp.QubitUnitary(UN(1,0), wires={w1}), control={W1})", "qp.ControlledSequence(qp.T({w2}), control={W2})")
hand("QuantumPhaseEstimation", 2, "qp.QuantumPhaseEstimation(qp.RX(A[0], wires={w0}), estimation_wires={W1:3})",
     "qp.QuantumPhaseEstimation(UN(1,0), target_wires={W1}, estimation_wires={W1:4})",
     "qp.QuantumPhaseEstimation(qp.CRZ(A[1], wires={W2}), estimation_wires={W2:4})",
     "qp.QuantumPhaseEstimation(qp.PhaseShift(A[2], wires={w0}), estimation_wires={W1:2})")
hand("Select", 4, "qp.Select([qp.X({w2}), qp.X({w3}), qp.Y({w2}), qp.SWAP({W2:4})], control={W2})",
     "qp.Select([qp.X({w2}), qp.RY(A[0], {w3}), qp.SWAP({W2:4})], control={W2}, partial=True)",
     "qp.Select([qp.RX(A[0], {w3}), qp.Z({w3}), qp.H({w3}), qp.S({w3}), qp.T({w3})], control={W3}, work_wires={W4:6})",
     "qp.Select([qp.X({w1}), qp.Z({w1})], control={W1})",
     "qp.Select([qp.X({w2}), qp.RY(A[0], {w3}), qp.SWAP({W2:4})], control={W2})",
     "qp.Select([qp.RX(A[0], {w3}), qp.Z({w3}), qp.H({w3}), qp.S({w3}), qp.T({w3})], control={W3}, partial=True)",
     "qp.Select([qp.RX(A[0], {w3}), qp.Z({w3}), qp.H({w3}), qp.S({w3}), qp.T({w3}), qp.Y({w3}), qp.CNOT({W3:5})], control={W3}, work_wires={W5:7}, partial=True)",
     "qp.Select([qp.X({w1})], control={W1})",
     "qp.Select([qp.RX(A[0], {w3}), qp.Z({w3}), qp.H({w3}), qp.S({w3}), qp.T({w3}), qp.Y({w3}), qp.RZ(A[1], {w3}), qp.X({w3})], control={W3}, work_wires={W4:6})")
hand("SelectPauliRot", 3, "qp.SelectPauliRot(WT((4,),0), control_wires={W2}, target_wire={w2}, rot_axis='Z')",
     "qp.SelectPauliRot(WT((2,),1), control_wires={W1}, target_wire={w1}, rot_axis='Y')",
     "qp.SelectPauliRot(WT((8,),2), control_wires={W3}, target_wire={w3}, rot_axis='X')",
     "qp.SelectPauliRot(WT((4,),3), control_wires={W2}, target_wire={w2}, rot_axis='X')",
     "qp.SelectPauliRot(np.array([A[0], A[0]]), control_wires={W1}, target_wire={w1}, rot_axis='Z')")
hand("QROM", 4, "qp.QROM([[0,1,0],[1,1,1],[1,1,0],[0,0,0]], control_wires={W2}, target_wires={W2:5}, work_wires={W5:8})",
     "qp.QROM(['01','11','10'], control_wires={W2}, target_wires={W2:4}, work_wires=[])",
     "qp.QROM(['01','11','10','00'], control_wires={W2}, target_wires={W2:4}, work_wires={W4:6}, clean=False)",
     "qp.QROM(['1','0','0','1','1'], control_wires={W3}, target_wires={W3:4}, work_wires={W4:5})",
     "qp.QROM(['01','11','10','00'], control_wires={W2}, target_wires={W2:4}, work_wires={W4:6}, clean=True)",
     "qp.QROM(['011','110'], control_wires={W1}, target_wires={W1:4}, work_wires={W4:7})",
     "qp.QROM(['01'], control_wires=[], target_wires={W2}, work_wires=[])",
     "qp.QROM(['01','11','10','00','11','01','00','10'], control_wires={W3}, target_wires={W3:5}, work_wires={W5:11})",
     "qp.QROM(['01','11','10','00','11','01','00','10'], control_wires={W3}, target_wires={W3:5}, work_wires={W5:7}, clean=False)")
hand("BBQRAM", 1, "qp.BBQRAM(['01','10'], control_wires={W1}, target_wires={W1:3}, work_wires={W3:7})",
     "qp.BBQRAM(['1','0'], control_wires={W1}, target_wires={W1:2}, work_wires={W2:6})")
hand("HybridQRAM", 1, "qp.HybridQRAM(['01','10','11','00'], control_wires={W2}, target_wires={W2:4}, work_wires={W4:9}, k=1)",
     "qp.HybridQRAM(['1','0','1','1'], control_wires={W2}, target_wires={W2:3}, work_wires={W3:8}, k=1)")
hand("SelectOnlyQRAM", 2, "qp.SelectOnlyQRAM(['01','10','11','00'], control_wires={W2}, target_wires={W2:4})",
     "qp.SelectOnlyQRAM(['010','111','110','000','010','111','110','001'], control_wires={W2}, target_wires={W2:5}, select_wires={W5:6}, select_value=0)",
     "qp.SelectOnlyQRAM(['010','111','110','000','010','111','110','001'], control_wires={W2}, target_wires={W2:5}, select_wires={W5:6}, select_value=1)",
     "qp.SelectOnlyQRAM(['1','0'], control_wires={W1}, target_wires={W1:2})")
hand("FFQRAM", 1, "qp.FFQRAM(amplitudes=np.sqrt(np.array([0.3, 0.7])), wires={W4}, address=['000','001'])",
     "qp.FFQRAM(amplitudes=np.array([0.6, 0.8, 0.5]), wires={W3}, address=['10','01','11'])")
hand("FABLE", 2, "qp.FABLE(np.array([[0.1, 0.2],[0.3, -0.2]]), wires={W3}, tol=0)", "qp.FABLE(WT((4,4),0)/8, wires={W5}, tol=0)",
     "qp.FABLE(np.array([[0.1, 0.2],[0.3, -0.2]]), wires={W3}, tol=0.15)", "qp.FABLE(np.array([[0.5, 0.0],[0.0, 0.5]]), wires={W3}, tol=0.01)")
hand("FFFT", 1, "qp.FFFT(wires={W4})", "qp.FFFT(wires={W2})")
hand("PrepSelPrep", 2, "qp.PrepSelPrep(qp.dot([0.3, -0.1], [qp.X({w2}), qp.Z({w2})]), control={W2})",
     "qp.PrepSelPrep(qp.dot([0.25, 0.75, -0.4], [qp.Z({w2}), qp.X({w2}) @ qp.Z({w3}), qp.Y({w3})]), control={W2})",
     "qp.PrepSelPrep(qp.dot([0.5, 0.5j], [qp.X({w1}), qp.Z({w1})]), control={W1})")
hand("Qubitization", 1, "qp.Qubitization(qp.dot([0.1, 0.3, -0.3], [qp.Z({w2}), qp.Z({w3}), qp.Z({w2}) @ qp.Z({w4})]), control={W2})",
     "qp.Qubitization(qp.dot([0.7, -0.2], [qp.X({w1}), qp.Z({w1})]), control={W1})")
hand("QSVT", 2, "qp.QSVT(qp.Hadamard(wires={w0}), [qp.RZ(-2 * t, wires={w0}) for t in (1.23, -0.5, 4)])",
     "qp.QSVT(qp.BlockEncode(np.array([[0.2, 0.1], [0.1, -0.1]]), wires={W2}), [qp.PCPhase(a, dim=2, wires={W2}) for a in (A[0], A[1], A[2], A[3])])",
     "qp.QSVT(qp.BlockEncode(np.array([[0.3]]), wires={W1}), [qp.PCPhase(a, dim=1, wires={W1}) for a in (A[0], A[1])])")
hand("GQSP", 1, "qp.GQSP(qp.RX(A[0], wires={w1}), WT((3,3),0), control={w0})", "qp.GQSP(qp.CRY(A[1], wires={W1:3}), WT((3,2),1), control={w0})")
hand("HilbertSchmidt", 1, "qp.HilbertSchmidt([qp.RZ(A[0], wires={w1})], [qp.Hadamard({w0})])",
     "qp.HilbertSchmidt([qp.RZ(A[0], wires={w2}), qp.CNOT({W2:4})], [qp.CZ({W2})])")
hand("LocalHilbertSchmidt", 1, "qp.LocalHilbertSchmidt([qp.RZ(A[0], wires={w2}), qp.RZ(A[1], wires={w3}), qp.CNOT({W2:4})], [qp.CZ({W2})])",
     "qp.LocalHilbertSchmidt([qp.RZ(A[0], wires={w1})], [qp.Hadamard({w0})])")
hand("QuantumMonteCarlo", 1, "qp.QuantumMonteCarlo(np.array([0.1, 0.2, 0.3, 0.4]), lambda i: [0.2, 0.9, 0.5, 0.35][i], target_wires={W3}, estimation_wires={W3:5})",
     "qp.QuantumMonteCarlo(np.array([0.4, 0.6]), lambda i: [0.3, 0.8][i], target_wires={W2}, estimation_wires={W2:3})")
hand("TrotterProduct", 3, "qp.TrotterProduct(qp.dot([0.25, 0.75], [qp.X({w0}), qp.Z({w0})]), time=2.4, order=2)",
     "qp.TrotterProduct(qp.dot([0.5, 0.2, 0.1], [qp.X({w0}), qp.Y({w1}), qp.Y({w0}) @ qp.Z({w1})]), 1.3, n=2, order=1)",
     "qp.TrotterProduct(qp.dot([0.5, -0.6], [qp.X({w0}) @ qp.X({w1}), qp.Z({w1})]), -0.7, n=1, order=4)",
     "qp.TrotterProduct(qp.sum(qp.dot([0.5, 0.2], [qp.X({w0}), qp.Y({w1})]), qp.dot([0.1, -0.6], [qp.Y({w0}) @ qp.Z({w1}), qp.X({w0}) @ qp.Y({w1})])), 1.0, n=1, order=2)")
hand("ApproxTimeEvolution", 2, "qp.ApproxTimeEvolution(qp.Hamiltonian([A[0], A[1]], [qp.X({w0}) @ qp.Z({w1}), qp.Y({w1})]), A[2], 2)",
     "qp.ApproxTimeEvolution(qp.Hamiltonian([1.0, 0.5, -0.3], [qp.X({w0}), qp.Z({w0}) @ qp.Z({w1}) @ qp.Y({w2}), qp.Identity({w0})]), 0.7, 1)",
     "qp.ApproxTimeEvolution(qp.Hamiltonian([0.4], [qp.Z({w0})]), 1.1, 3)")
hand("CommutingEvolution", 2, "qp.CommutingEvolution(qp.Hamiltonian([A[0], A[1]], [qp.X({w0}) @ qp.Y({w1}), qp.Y({w0}) @ qp.X({w1})]), A[2])",
     "qp.CommutingEvolution(qp.Hamiltonian([1.0, -1.0], [qp.X({w0}) @ qp.Y({w1}), qp.Y({w0}) @ qp.X({w1})]), 0.6, frequencies=(2,))",
     "qp.CommutingEvolution(qp.Hamiltonian([0.5, 0.25], [qp.Z({w0}), qp.Z({w0}) @ qp.Z({w1})]), -1.3)")
hand("Evolution", 3, "qp.ops.Evolution(qp.X({w0}), A[0])", "qp.ops.Evolution(qp.X({w0}) @ qp.Y({w1}), A[1])", "qp.ops.Evolution(2.0 * qp.Z({w0}) @ qp.Z({w1}) @ qp.X({w2}), A[2])",
     "qp.ops.Evolution(qp.Z({w0}), A[3])", "qp.ops.Evolution(-0.5 * qp.Y({w0}), A[4])")
hand("Exp", 3, "qp.exp(qp.X({w0}), -0.5j * A[0])", "qp.exp(qp.X({w0}) @ qp.Y({w1}), 1j * A[1])", "qp.exp(0.5 * qp.Z({w0}) @ qp.Z({w1}), -1j * A[2])",
     "qp.exp(qp.Y({w0}), 0.25j)", "qp.exp(qp.Z({w0}) @ qp.X({w1}) @ qp.Y({w2}), -0.3j)")
hand("Prod", 3, "qp.prod(qp.X({w0}), qp.Z({w1}))", "qp.prod(qp.RZ(A[0], wires={w0}), qp.X({w0}), qp.CNOT({W2}))",
     "qp.prod(qp.Hadamard({w0}), qp.prod(qp.S({w0}), qp.RY(A[1], {w1})), qp.T({w2}))", "qp.prod(qp.X({w0}), qp.Y({w0}), qp.Z({w0}))",
     "qp.prod(qp.CRX(A[2], {W2}), qp.adjoint(qp.S({w1})))")
hand("ChangeOpBasis", 3, "qp.change_op_basis(qp.Hadamard({w0}), qp.RZ(A[0], {w0}), qp.Hadamard({w0}))", "qp.change_op_basis(qp.S({w1}), qp.CRY(A[1], {W2}))",
     "qp.change_op_basis(qp.CNOT({W2}), qp.RZ(A[2], {w1}), qp.CNOT({W2}))", "qp.change_op_basis(qp.QFT({W2}), qp.PhaseShift(A[3], {w0}))")
hand("C(ChangeOpBasis)", 2, "qp.ctrl(qp.change_op_basis(qp.Hadamard({w0}), qp.RZ(A[0], {w0}), qp.Hadamard({w0})), control=['k0'])",
     "qp.ctrl(qp.change_op_basis(qp.S({w1}), qp.CRY(A[1], {W2})), control=['k0', 'k1'], control_values=[0, 1])",
     "qp.ctrl(qp.change_op_basis(qp.CNOT({W2}), qp.RZ(A[2], {w1}), qp.CNOT({W2})), control=['k0', 'k1', 'k2'])")
hand("C(Prod)", 3, "qp.ctrl(qp.prod(qp.X({w0}), qp.Y({w1})), control=['k0', 'k1'], work_wires=['k2', 'k3'])",
     "qp.ctrl(qp.prod(qp.RX(A[0], {w0}), qp.Z({w1}), qp.H({w0})), control=['k0', 'k1', 'k2'], control_values=[1, 0, 1], work_wires=['k3'], work_wire_type='zeroed')",
     "qp.ctrl(qp.prod(qp.X({w0}), qp.Y({w1})), control=['k0'])",
     "qp.ctrl(qp.prod(qp.X({w0}), qp.Y({w1})), control=['k0', 'k1'], control_values=[0, 0], work_wires=['k2'], work_wire_type='borrowed')",
     "qp.ctrl(qp.prod(qp.S({w0}), qp.T({w0}), qp.CNOT({W2})), control=['k0', 'k1', 'k2'], work_wires=['k3', 'k4'], work_wire_type='zeroed')")
hand("C(SemiAdder)", 2, "qp.ctrl(qp.SemiAdder({W0:2}, {W2:4}, {W4:5}), control=['k0'])", "qp.ctrl(qp.SemiAdder({W0:2}, {W2:5}, {W5:7}), control=['k0'], control_values=[0])",
     "qp.ctrl(qp.SemiAdder({W0:1}, {W1:2}), control=['k0', 'k1'])", "qp.ctrl(qp.SemiAdder({W0:3}, {W3:5}, {W5:6}), control=['k0', 'k1'], control_values=[1, 0])")
hand("C(Incrementer)", 2, "qp.ctrl(qp.Incrementer({W3}, {W3:5}), control=['k0'])", "qp.ctrl(qp.Incrementer({W3}), control=['k0', 'k1'], control_values=[0, 1])",
     "qp.ctrl(qp.Incrementer({W2}), control=['k0'], control_values=[0])", "qp.ctrl(qp.Incrementer({W4}, {W4:5}), control=['k0', 'k1'])",
     # enough zeroed work wires for the elbow-ladder rule with >= 2 controls (n + c <= work + 1), two sizes with the same n + c
     "qp.ctrl(qp.Incrementer({W3}, ['v0', 'v1', 'v2', 'v3', 'v4']), control=['k0', 'k1'])",
     "qp.ctrl(qp.Incrementer({W2}, ['v0', 'v1', 'v2', 'v3', 'v4']), control=['k0', 'k1', 'k2'], control_values=[1, 0, 1])")
hand("Adjoint(ChangeOpBasis)", 2, "qp.adjoint(qp.change_op_basis(qp.Hadamard({w0}), qp.RZ(A[0], {w0}), qp.Hadamard({w0})))",
     "qp.adjoint(qp.change_op_basis(qp.S({w1}), qp.CRY(A[1], {W2})))")
hand("Adjoint(QROM)", 2, "qp.adjoint(qp.QROM(['01','11','10','00'], control_wires={W2}, target_wires={W2:4}, work_wires={W4:6}, clean=False))",
     "qp.adjoint(qp.QROM([[0,1,0],[1,1,1],[1,1,0],[0,0,0]], control_wires={W2}, target_wires={W2:5}, work_wires={W5:8}))",
     "qp.adjoint(qp.QROM(['01','11','10'], control_wires={W2}, target_wires={W2:4}, work_wires=[]))",
     "qp.adjoint(qp.QROM(['1','0','0','1','1'], control_wires={W3}, target_wires={W3:4}, work_wires={W4:5}))")
# --- state preparations
hand("StatePrep", 3, "qp.StatePrep(SV(2,0), wires={W2})", "qp.StatePrep(SV(1,1), wires={W1})", "qp.StatePrep(SV(3,-3), wires={W3})",
     "qp.StatePrep(SV(2,-1), wires={W2})", "qp.StatePrep(SV(2,-2), wires={W2})", "qp.StatePrep(SV(3,2), wires={W3})", "qp.StatePrep(SV(2,-4), wires={W2})")
hand("MottonenStatePreparation", 4, "qp.MottonenStatePreparation(SV(2,0), wires={W2})", "qp.MottonenStatePreparation(SV(1,1), wires={W1})",
     "qp.MottonenStatePreparation(SV(3,-3), wires={W3})", "qp.MottonenStatePreparation(SV(2,-2), wires={W2})",
     "qp.MottonenStatePreparation(SV(2,-1), wires={W2})", "qp.MottonenStatePreparation(SV(3,2), wires={W3})", "qp.MottonenStatePreparation(SV(2,-4), wires={W2})")
hand("AmplitudeEmbedding", 3, "qp.AmplitudeEmbedding(SV(2,0), wires={W2})", "qp.AmplitudeEmbedding(np.array([1.0, 2.0, 0.5]), wires={W2}, pad_with=0.3, normalize=True)",
     "qp.AmplitudeEmbedding(np.array([3.0, -1.0]), wires={W1}, normalize=True)", "qp.AmplitudeEmbedding(SV(3,-3), wires={W3})")
hand("BasisState", 3, "qp.BasisState(np.array([1, 0, 1]), wires={W3})", "qp.BasisState(np.array([0, 0]), wires={W2})", "qp.BasisState(np.array([1]), wires={W1})",
     "qp.BasisState(np.array([0, 1, 0, 1]), wires={W4})", "qp.BasisState(np.array([1, 1, 1, 1]), wires={W4})")
hand("ArbitraryStatePreparation", 2, "qp.ArbitraryStatePreparation(WT((6,),0), wires={W2})", "qp.ArbitraryStatePreparation(WT((2,),1), wires={W1})",
     "qp.ArbitraryStatePreparation(WT((14,),2), wires={W3})")
hand("CosineWindow", 2, "qp.CosineWindow(wires={W2})", "qp.CosineWindow(wires={W3})", "qp.CosineWindow(wires={W1})", "qp.CosineWindow(wires={W4})")
hand("MultiplexerStatePreparation", 3, "qp.MultiplexerStatePreparation(SV(2,0), {W2})", "qp.MultiplexerStatePreparation(np.sqrt(np.array([0.5, 0., 0.25, 0.25])), {W2})",
     "qp.MultiplexerStatePreparation(SV(1,1), {W1})", "qp.MultiplexerStatePreparation(SV(3,-3), {W3})", "qp.MultiplexerStatePreparation(SV(3,2), {W3})",
     "qp.MultiplexerStatePreparation(SV(2,-1), {W2})")
hand("Superposition", 2, "qp.Superposition(np.sqrt(np.array([1/3, 1/3, 1/3])), np.array([[1, 1, 1], [0, 1, 0], [0, 0, 0]]), {W3}, {w3})",
     "qp.Superposition(np.array([0.6, 0.8j]), np.array([[1, 0], [0, 1]]), {W2}, {w2})",
     "qp.Superposition(np.array([0.5, -0.5, 0.5, 0.5]), np.array([[0, 0, 1], [1, 1, 0], [1, 0, 1], [0, 1, 0]]), {W3}, {w3})")
hand("MPSPrep", 1, "qp.MPSPrep([np.array([[0.0, 0.107], [0.994, 0.0]]), np.array([[[0.0, 0.0], [1.0, 0.0]], [[0.0, 1.0], [0.0, 0.0]]]), np.array([[-1.0, -0.0], [-0.0, -1.0]])], wires={W1:4}, work_wires={W1})")
hand("SumOfSlatersPrep", 1, "qp.SumOfSlatersPrep(np.array([0.6, 0.8j]), {W3}, (1, 6))", "qp.SumOfSlatersPrep(np.array([0.5, -0.5, 0.5j, 0.5]), {W3}, (0, 3, 5, 6))")
hand("PartialUnaryStatePreparation", 1, "qp.PartialUnaryStatePreparation(np.array([0.6, 0.8j]), {W2}, (1, 2), {W2:4})")
# --- embeddings / layers
hand("AngleEmbedding", 3, "qp.AngleEmbedding(WT((3,),0), wires={W3}, rotation='Y')", "qp.AngleEmbedding(WT((2,),1), wires={W3})",
     "qp.AngleEmbedding(WT((2,),2), wires={W2}, rotation='Z')", "qp.AngleEmbedding(WT((1,),3), wires={W1}, rotation='X')")
hand("IQPEmbedding", 2, "qp.IQPEmbedding(WT((3,),0), wires={W3})", "qp.IQPEmbedding(WT((3,),1), wires={W3}, n_repeats=2, pattern=[[{w1}, {w2}], [{w0}, {w2}]])",
     "qp.IQPEmbedding(WT((1,),2), wires={W1})", "qp.IQPEmbedding(WT((2,),3), wires={W2}, n_repeats=3)")
hand("QAOAEmbedding", 3, "qp.QAOAEmbedding(features=WT((2,),0), weights=WT((2,3),1), wires={W2})", "qp.QAOAEmbedding(features=WT((2,),0), weights=WT((1,6),2), wires={W3}, local_field='Z')",
     "qp.QAOAEmbedding(features=WT((1,),0), weights=WT((2,1),3), wires={W1}, local_field='X')", "qp.QAOAEmbedding(features=WT((3,),0), weights=WT((1,6),4), wires={W3})")
hand("BasicEntanglerLayers", 3, "qp.BasicEntanglerLayers(WT((2,3),0), wires={W3})", "qp.BasicEntanglerLayers(WT((1,2),1), wires={W2}, rotation=qp.RZ)",
     "qp.BasicEntanglerLayers(WT((2,1),2), wires={W1})", "qp.BasicEntanglerLayers(WT((1,4),3), wires={W4}, rotation=qp.RY)")
hand("StronglyEntanglingLayers", 3, "qp.StronglyEntanglingLayers(WT((2,3,3),0), wires={W3})", "qp.StronglyEntanglingLayers(WT((2,4,3),1), wires={W4}, ranges=[2, 3], imprimitive=qp.ops.CZ)",
     "qp.StronglyEntanglingLayers(WT((1,1,3),2), wires={W1})", "qp.StronglyEntanglingLayers(WT((1,2,3),3), wires={W2})")
hand("SimplifiedTwoDesign", 2, "qp.SimplifiedTwoDesign(WT((3,),0), WT((2,2,2),1), wires={W3})", "qp.SimplifiedTwoDesign(WT((2,),0), WT((1,1,2),1), wires={W2})",
     "qp.SimplifiedTwoDesign(WT((1,),0), WT((2,0,2),1), wires={W1})", "qp.SimplifiedTwoDesign(WT((4,),0), WT((1,3,2),1), wires={W4})")
hand("ArbitraryUnitary", 2, "qp.ArbitraryUnitary(WT((3,),0), wires={W1})", "qp.ArbitraryUnitary(WT((15,),1), wires={W2})")
hand("BasisRotation", 3, "qp.BasisRotation(wires={W3}, unitary_matrix=UD(3,0))", "qp.BasisRotation(wires={W2}, unitary_matrix=UD(2,1))",
     "qp.BasisRotation(wires={W3}, unitary_matrix=UD(3,-4))", "qp.BasisRotation(wires={W4}, unitary_matrix=UD(4,2))", "qp.BasisRotation(wires={W4}, unitary_matrix=UD(4,-4))")
hand("IQP", 2, "qp.IQP(weights=WT((2,),0), wires={W2}, pattern=[[[0]], [[1]]])", "qp.IQP(weights=WT((3,),1), wires={W3}, pattern=[[[0, 1]], [[2]], [[0, 2], [1]]], spin_sym=True)",
     "qp.IQP(weights=WT((2,),2), wires={W3}, pattern=[[[0, 1, 2]], [[1]]])")
hand("AllSinglesDoubles", 2, "qp.AllSinglesDoubles(WT((3,),0), {W4}, np.array([1, 1, 0, 0]), singles=[[{w0}, {w2}], [{w1}, {w3}]], doubles=[{W4}])",
     "qp.AllSinglesDoubles(WT((1,),1), {W2}, np.array([1, 0]), singles=[[{w0}, {w1}]])",
     "qp.AllSinglesDoubles(WT((1,),2), {W4}, np.array([0, 1, 1, 0]), doubles=[{W4}])")
hand("FermionicSingleExcitation", 2, "qp.FermionicSingleExcitation(A[0], wires={W3})", "qp.FermionicSingleExcitation(A[1], wires={W2})", "qp.FermionicSingleExcitation(A[2], wires={W4})")
hand("FermionicDoubleExcitation", 2, "qp.FermionicDoubleExcitation(A[0], wires1={W0:2}, wires2={W2:4})", "qp.FermionicDoubleExcitation(A[1], wires1={W0:3}, wires2={W3:5})",
     "qp.FermionicDoubleExcitation(A[2], wires1={W0:2}, wires2={W2:5})")
hand("UCCSD", 1, "qp.UCCSD(WT((3,),0), {W4}, s_wires=[{W0:3}, {W1:4}], d_wires=[[{W0:2}, {W2:4}]], init_state=np.array([1, 1, 0, 0]))",
     "qp.UCCSD(WT((2,3),1), {W4}, s_wires=[{W0:3}, {W1:4}], d_wires=[[{W0:2}, {W2:4}]], init_state=np.array([1, 1, 0, 0]), n_repeats=2)")
hand("kUpCCGSD", 1, "qp.kUpCCGSD(WT((1,6),0), wires={W4}, k=1, delta_sz=0, init_state=np.array([1, 1, 0, 0]))",
     "qp.kUpCCGSD(WT((2,6),1), wires={W4}, k=2, delta_sz=0, init_state=np.array([1, 0, 0, 1]))")
hand("GateFabric", 1, "qp.GateFabric(WT((1,1,2),0), wires={W4}, init_state=np.array([1, 1, 0, 0]))",
     "qp.GateFabric(WT((2,1,2),1), wires={W4}, init_state=np.array([1, 1, 0, 0]), include_pi=True)")
hand("ParticleConservingU1", 1, "qp.ParticleConservingU1(WT((1,1,2),0), wires={W2}, init_state=np.array([1, 0]))",
     "qp.ParticleConservingU1(WT((2,2,2),1), wires={W3}, init_state=np.array([1, 1, 0]))")
hand("ParticleConservingU2", 1, "qp.ParticleConservingU2(WT((1,3),0), wires={W2}, init_state=np.array([1, 0]))",
     "qp.ParticleConservingU2(WT((2,5),1), wires={W3}, init_state=np.array([1, 1, 0]))")
hand("TmpPauliRot", 2, "qp.ops.qubit.special_unitary.TmpPauliRot(A[0], 'XY', wires={W2})", "qp.ops.qubit.special_unitary.TmpPauliRot(0.0, 'Z', wires={W1})",
     "qp.ops.qubit.special_unitary.TmpPauliRot(A[1], 'ZIX', wires={W3})")
hand("LabelledOp", 2, "LabelledOp(qp.RX(A[0], {w0}), 'my')", "LabelledOp(qp.CNOT({W2}), 'c')")
hand("MarkedOp", 2, "MarkedOp(qp.RX(A[0], {w0}), 'x')", "MarkedOp(qp.CRY(A[1], {W2}), 'y')")
hand("SubroutineOp", 2, "SUB(0).operator(A[0], A[1], {W3})", "SUB(1).operator(A[2], {W2}, 'XY')", "SUB(0).operator(A[3], A[4], {W2})")

EXPO = [2, 3, -1, 0.5, 0, 1, -2, 2.5, 4, 7, -0.5, 1.5, 8, 6, 0.25]
EXPO_QUICK = [2, 3, -1, 0.5, 0, 1, 4, 1.5]


def base_templates(name):
    """(templates, quick_count) for a non-symbolic operator name, or None if there is no recipe."""
    if name in HAND:
        return HAND[name]
    cls = find_class(name)
    if cls is None:
        return None
    nw, npar = getattr(cls, "num_wires", None), getattr(cls, "num_params", None)
    if isinstance(nw, int) and isinstance(npar, int):
        # generic fixed-arity gate: two generic parameter sets, plus special angles in the thorough tier
        outs = []
        sets = [list(range(npar)), [(3 + 2 * i) % len(A) for i in range(npar)]]
        for s in sets:
            args = ", ".join(f"A[{i}]" for i in s)
            outs.append(f"qp.{name}({args + ', ' if args else ''}wires={{W{nw}}})")
        q = 2 if npar else 1
        if npar:
            for special in ("0.0", "PI", "PI/2", "-PI", "2*PI", "4*PI-0.2"):
                args = ", ".join([special] + [f"A[{i + 5}]" for i in range(npar - 1)])
                outs.append(f"qp.{name}({args}, wires={{W{nw}}})")
        else:
            outs = outs[:1]
        return outs, q
    return None


def _pools_for(tier, idx):
    if tier == "quick":
        return [idx % len(POOLS)]
    return list(range(len(POOLS)))


def base_exprs(name, tier):
    bt = base_templates(name)
    if bt is None:
        return None
    tmpls, q = bt
    use = tmpls[:q] if tier == "quick" else tmpls
    out = []
    for i, t in enumerate(use):
        for p in _pools_for(tier, i):
            e = _subst(t, p)
            if e not in out:
                out.append(e)
    return out


def _fresh(op, n, style=0):
    """n labels not used by op (wires + own work wires)."""
    used = set(op.wires) | set(_own_work_wires(op))
    out = []
    cands = ([f"c{i}" for i in range(20)] if style == 0 else list(range(50, 70))) if style < 2 else [90, "cx", 91, "cy", 92, "cz", 93, "cw", 94, "cv", 95, "cu"]
    for c in cands:
        if c not in used:
            out.append(c)
        if len(out) == n:
            return out
    raise AssertionError("not enough labels")


CTRL_CONFIGS_QUICK = [  # (control values, n work wires, work wire type)
    ([1, 1], 0, None), ([0, 1], 0, None), ([1, 0, 1], 0, None), ([0], 0, None), ([1, 1, 1], 1, "zeroed"), ([1, 0, 1, 1], 2, "borrowed"),
    # a zero control value at EVERY position (first / middle / last) for 2 and 3 controls: rules that treat one control wire
    # specially (e.g. the wire that carries the phase of a controlled GlobalPhase) are only exposed by a zero on that wire
    ([1, 0], 0, None), ([0, 0], 0, None), ([1, 1, 0], 0, None), ([0, 1, 1], 0, None),
]
CTRL_CONFIGS_THOROUGH = CTRL_CONFIGS_QUICK + [
    ([1], 0, None), ([1, 1, 1], 0, None), ([0, 0, 0], 0, None), ([1, 1], 1, "zeroed"), ([1, 1], 1, "borrowed"),
    ([0, 1, 1], 1, "borrowed"), ([1, 1, 0], 2, "zeroed"), ([1, 1, 1, 1], 0, None), ([1, 1, 0, 1], 1, "zeroed"), ([1, 1, 1, 1], 2, "zeroed"),
    ([1, 1, 1, 1, 1], 0, None), ([1, 0, 1, 1, 1], 3, "zeroed"), ([1, 1, 1, 0, 1], 3, "borrowed"),
]


def symbolic_exprs(kind, base, tier, max_wires=9):
    """Instance expressions of Adjoint(base) / Pow(base) / C(base)."""
    be = base_exprs(base, tier)
    if be is None:
        return None
    out = []
    if kind == "Adjoint":
        return [f"qp.adjoint({e})" for e in be]
    if kind == "Pow":
        zs = EXPO_QUICK if tier == "quick" else EXPO
        be = be[: 2 if tier == "quick" else 4]
        for i, e in enumerate(be):
            for z in zs:
                out.append(f"qp.pow({e}, {z!r})")
        return out
    if kind == "C":
        cfgs = CTRL_CONFIGS_QUICK if tier == "quick" else CTRL_CONFIGS_THOROUGH
        be = be[: 2 if tier == "quick" else 4]
        for i, e in enumerate(be):
            try:
                op = build(e)
            except Exception:  # recipe broken: surfaces as 'unbuildable' in the driver
                out.append(f"qp.ctrl({e}, control=['c0'])")
                continue
            for j, (cv, nww, wwt) in enumerate(cfgs):
                if len(op.wires) + len(_own_work_wires(op)) + len(cv) + nww > max_wires:
                    continue
                labels = _fresh(op, len(cv) + nww, style=(i + j) % 3)
                cw, ww = labels[: len(cv)], labels[len(cv):]
                extra = f", work_wires={ww!r}, work_wire_type={wwt!r}" if nww else ""
                out.append(f"qp.ctrl({e}, control={cw!r}, control_values={cv!r}{extra})")
        return out
    raise AssertionError(kind)


def instance_exprs(key, tier):
    """All instance expressions for a registry key (None = no recipe -> reported as uncovered)."""
    m = SYMB.match(key)
    if m:
        return symbolic_exprs(m.group(1), m.group(2), tier)
    return base_exprs(key, tier)


# generic symbolic families that have no registry key of their own (rules generated by the graph system)
EXTRA_KEYS = ["MultiControlledX", "C(PauliX)", "C(SX)", "C(T)", "C(S)", "C(U2)", "C(U3)", "C(MultiRZ)", "C(IsingXX)", "C(CRX)", "C(CNOT)",
              "C(Toffoli)", "C(PauliRot)", "C(ISWAP)", "C(DoubleExcitation)", "C(QFT)", "C(MultiControlledX)",
              "Adjoint(S)", "Adjoint(T)", "Adjoint(SX)", "Adjoint(ISWAP)", "Adjoint(SISWAP)", "Adjoint(QFT)", "Adjoint(PCPhase)",
              "Adjoint(Prod)", "Adjoint(Adder)", "Adjoint(MultiRZ)", "Adjoint(StronglyEntanglingLayers)",
              "Pow(Rot)", "Pow(U3)", "Pow(QFT)", "Pow(Prod)", "Pow(PCPhase)", "Pow(OrbitalRotation)",
              "Adjoint(Adjoint)", "Pow(Pow)", "Pow(Adjoint)", "C(Adjoint)", "Adjoint(Pow)", "Adjoint(C)", "C(C)", "Pow(C)"]

hand("Adjoint", 2, "qp.adjoint(qp.RX(A[0], wires={W1}))", "qp.adjoint(qp.CRot(A[0], A[1], A[2], wires={W2}))",
     "qp.adjoint(qp.S({W1}))", "qp.adjoint(qp.DoubleExcitation(A[3], wires={W4}))", "qp.adjoint(qp.QubitUnitary(UN(2,0), wires={W2}))")
hand("Pow", 2, "qp.pow(qp.RX(A[0], wires={W1}), 2)", "qp.pow(qp.SX({W1}), 0.5)", "qp.pow(qp.CNOT({W2}), 3)",
     "qp.pow(qp.FermionicSWAP(A[2], wires={W2}), -1.5)")
hand("C", 2, "qp.ctrl(qp.RX(A[0], wires={W1}), control=['k0','k1'])", "qp.ctrl(qp.SWAP({W2}), control=['k0'], control_values=[0])",
     "qp.ctrl(qp.DoubleExcitation(A[1], wires={W4}), control=['k0'])", "qp.ctrl(qp.PhaseShift(A[2], wires={W1}), control=['k0','k1','k2'])")


# ------------------------------------------------------------------------------------------------ rules
def op_name(op):
    from pennylane.decomposition.utils import to_name
    from pennylane.core.operator import abstractify

    try:
        return to_name(abstractify(op))
    except Exception:
        return to_name(op)


_GRAPH = None
LISTING_CRASHES = []


def rules_for(op):
    """[(name, rule)] – every rule the graph system considers for this operator (unique names; duplicates get #n)."""
    global _GRAPH
    from pennylane.core.operator import abstractify
    from pennylane.decomposition import DecompositionGraph

    if _GRAPH is None:
        _GRAPH = DecompositionGraph([], gate_set={"RX"})
    try:
        rules = list(_GRAPH._get_decompositions(abstractify(op)))  # pylint: disable=protected-access
    except ValueError as e:  # the graph's own listing crashed (reported through LISTING_CRASHES / C12)
        import pennylane as qp

        LISTING_CRASHES.append(f"{type(e).__name__}: {e}"[:160])
        rules = list(qp.list_decomps(abstractify(op)))
    out, seen = [], {}
    for r in rules:
        n = r.name
        if n in seen:
            seen[n] += 1
            n = f"{n}#{seen[n]}"
        else:
            seen[n] = 0
        out.append((n, r))
    return out


_INST = {}


def instance(expr):
    """(op, {rule name: rule}) for an instance expression; small per-process cache (cases of one instance are adjacent)."""
    hit = _INST.get(expr)
    if hit is None:
        if len(_INST) > 64:
            _INST.clear()
        op = build(expr)
        hit = _INST[expr] = (op, dict(rules_for(op)))
    return hit


def decomp_args(op):
    from pennylane.decomposition.utils import _get_decomp_args

    return _get_decomp_args(op)


def emit(op, rule):
    import pennylane as qp

    _, args, kwargs = decomp_args(op)
    with qp.queuing.AnnotatedQueue() as q:
        rule(*args, **kwargs)
    return list(q.queue)


def _own_work_wires(op):
    """work wires supplied by the user on the operator (not part of op.wires)."""
    ww = []
    seen = set(op.wires)

    def add(ws):
        for w in ws or ():
            if w not in seen:
                seen.add(w)
                ww.append(w)

    hp = getattr(op, "hyperparameters", {}) or {}
    for k in ("work_wires", "work_wire"):
        v = getattr(op, k, None)
        if v is None:
            v = hp.get(k)
        if v is not None:
            try:
                add(list(v))
            except TypeError:
                add([v])
    b = getattr(op, "base", None)
    if b is not None and b is not op:
        add(_own_work_wires(b))
    return ww


def _inner_work_wires(op):
    """declared work wires that are part of op.wires (templates list them among their wires)."""
    hp = getattr(op, "hyperparameters", {}) or {}
    out = []
    for k in ("work_wires", "work_wire"):
        v = hp.get(k)
        if v is None:
            v = getattr(op, k, None)
        if v is None:
            continue
        try:
            v = list(v)
        except TypeError:
            v = [v]
        for w in v:
            if w in op.wires and w not in out:
                out.append(w)
    b = getattr(op, "base", None)
    if b is not None and b is not op and type(op).__name__.startswith(("Adjoint", "Pow", "Controlled")):
        # (a controlled template keeps the template's documented domain: its own work wires start in |0>)
        out += [w for w in _inner_work_wires(b) if w not in out]
    return out


def own_work_wire_type(op):
    t = getattr(op, "work_wire_type", None)
    if t is None:
        t = (getattr(op, "hyperparameters", {}) or {}).get("work_wire_type")
    return str(t) if t is not None else None


class Layout:
    """Wire bookkeeping of one recorded rule."""

    def __init__(self, op, queue):
        from pennylane.allocation import Allocate, Deallocate

        self.sys = list(op.wires)
        self.own = _own_work_wires(op)          # user-supplied work wires that are NOT part of op.wires
        self.inner_work = _inner_work_wires(op)  # declared work wires that ARE part of op.wires (templates)
        self.dyn = []  # (wire, state, restored)
        self.ops = []
        alive, self.max_alive = 0, 0
        self.kinds = {"zeroed": 0, "borrowed": 0, "burnable": 0, "garbage": 0}
        self.peak_kind = dict(self.kinds)
        live_kind = dict(self.kinds)
        kind_of = {}
        for o in queue:
            if isinstance(o, Allocate):
                st, rest = str(o.state), bool(o.restored)
                kind = {("zero", True): "zeroed", ("any", True): "borrowed", ("zero", False): "burnable", ("any", False): "garbage"}.get((st, rest), st)
                for w in o.wires:
                    self.dyn.append((w, st, rest, kind))
                    kind_of[w] = kind
                    alive += 1
                    live_kind[kind] = live_kind.get(kind, 0) + 1
                    self.kinds[kind] = self.kinds.get(kind, 0) + 1
                self.max_alive = max(self.max_alive, alive)
                for k, v in live_kind.items():
                    self.peak_kind[k] = max(self.peak_kind.get(k, 0), v)
            elif isinstance(o, Deallocate):
                for w in o.wires:
                    alive -= 1
                    live_kind[kind_of[w]] -= 1
            else:
                self.ops.append(o)
        self.order = self.sys + self.own + [d[0] for d in self.dyn]
        known = set(self.order)
        self.foreign = []
        for o in self.ops:
            for w in o.wires:
                if w not in known:
                    known.add(w)
                    self.foreign.append(w)

    @property
    def n(self):
        return len(self.order)


def has_measurement(ops):
    for o in ops:
        n = type(o).__name__
        if n in ("MidMeasureMP", "MidMeasure", "PauliMeasure"):
            return True
    return False


# ------------------------------------------------------------------------------------------------ reference
def target_matrix(op):
    """The matrix the rule has to implement on op.wires: documented closed form where the shared table has one
    (symbolic wrappers are resolved structurally), else the operator's own matrix."""
    import pennylane as qp
    from mc import refgates as RG
    from mc import refsim as RS

    name = type(op).__name__
    base = getattr(op, "base", None)
    if base is not None and name in ("Adjoint2", "Adjoint", "AdjointOperation", "AdjointOpObs", "AdjointObs"):
        return target_matrix(base).conj().T
    if base is not None and name in ("Pow2", "Pow", "PowOperation", "PowOpObs") :
        z = op.z
        if isinstance(z, (int, np.integer)) or float(z).is_integer():
            B = target_matrix(base)
            z = int(z)
            return np.linalg.matrix_power(B if z >= 0 else B.conj().T, abs(z))
        return np.asarray(qp.matrix(op, wire_order=list(op.wires)), dtype=complex)
    if base is not None and hasattr(op, "control_wires") and hasattr(op, "control_values") and name in ("ControlledOp2", "Controlled", "ControlledOp"):
        B = target_matrix(base)
        if list(op.wires) == list(op.control_wires) + list(base.wires):
            return RG.controlled(B, len(op.control_wires), [int(bool(v)) for v in op.control_values])
    if name == "MultiControlledX":
        return RG.controlled(RG.X, len(op.wires) - 1, [int(bool(v)) for v in op.control_values])
    if name == "QubitUnitary":
        return np.asarray(op.data[0], dtype=complex)
    if name == "DiagonalQubitUnitary":
        return np.diag(np.asarray(op.data[0], dtype=complex))
    if name == "ControlledQubitUnitary":
        U = np.asarray(op.data[0], dtype=complex)
        return RG.controlled(U, len(op.control_wires), [int(bool(v)) for v in op.control_values])
    if name == "Identity":
        return np.eye(2 ** len(op.wires), dtype=complex)
    return RS.op_matrix(op) if (RG.has(op.name) or getattr(op, "has_matrix", False)) else np.asarray(qp.matrix(op, wire_order=list(op.wires)), dtype=complex)


def is_state_prep(op):
    from pennylane.core.operator import StatePrepBase

    return isinstance(op, StatePrepBase)


# ------------------------------------------------------------------------------------------------ simulation
MAX_WIRES = 16
MAX_CELLS = 22  # n wires + free input wires (tensor of 2**MAX_CELLS complex numbers = 64 MB)


class TooBig(Exception):
    pass


class Unsimulable(Exception):
    pass


_PASS = ("Barrier", "Snapshot", "WireCut", "Conditional", "MidMeasureMP", "MidMeasure", "PauliMeasure")


def expand_for_sim(ops, depth=0, touched=None):
    """Make every op simulable by the reference: ops that have neither a table entry nor a matrix are expanded
    with their own decomposition (declared dependence, same as refsim.op_matrix).  A state-preparation operator is
    kept only while its wires are untouched (|0>); later ones act through their decomposition (BasisState -> X flips)."""
    from pennylane.allocation import Allocate, Deallocate

    touched = set() if touched is None else touched
    out = []
    for o in ops:
        if isinstance(o, (Allocate, Deallocate)):
            out.append(o)
            continue
        tname = type(o).__name__
        if tname == "Conditional":
            base = o.base
            if is_state_prep(base) or not (getattr(base, "has_matrix", False) or len(base.wires) == 0):
                for b in expand_for_sim([base], depth + 1, set(base.wires) | touched):
                    out.append(type(o)(o.meas_val, b))
            else:
                out.append(o)
            touched |= set(o.wires)
            continue
        if tname in _PASS:
            out.append(o)
            touched |= set(o.wires)
            continue
        if is_state_prep(o):
            # BasisState is modelled by its decomposition (X flips, identical on |0>); other preparations are kept
            # as preparations while their wires are still untouched
            if tname != "BasisState" and not (set(o.wires) & touched):
                out.append(o)
                touched |= set(o.wires)
                continue
        elif getattr(o, "has_matrix", False) or len(o.wires) == 0:
            out.append(o)
            touched |= set(o.wires)
            continue
        if depth > 12 or not getattr(o, "has_decomposition", False):
            raise Unsimulable(f"no matrix and no decomposition: {type(o).__name__}")
        out.extend(expand_for_sim(o.decomposition(), depth + 1, touched))
    return out


def apply_op(state, op, idx, n):
    """refsim.apply_op, plus scalars for wire-less symbolic operators (Adjoint(GlobalPhase), Pow(GlobalPhase), ...)."""
    import pennylane as qp
    from mc import refsim as RS

    if len(op.wires) == 0 and op.name not in ("GlobalPhase", "Identity", "Barrier", "Snapshot"):
        m = np.asarray(qp.matrix(op), dtype=complex).reshape(-1)
        return state * complex(m[0])
    try:
        return RS.apply_op(state, op, idx, n)
    except (ImportError, MemoryError, OSError):
        raise
    except Exception as e:  # noqa: BLE001
        # the matrix of an *emitted* operator is a declared dependence (C01/C02), not the subject of this check
        raise Unsimulable(f"matrix of emitted {type(op).__name__} raised {type(e).__name__}") from e


def simulate(order, ops, zero_wires):
    """Columns = computational basis of every wire of `order` that is not in zero_wires (those start in |0>).
    Returns (tensor of shape (2,)*n + (2**free,), free wire list)."""
    n = len(order)
    free = [w for w in order if w not in zero_wires]
    if n > MAX_WIRES or n + len(free) > MAX_CELLS:
        raise TooBig(f"{n} wires / {len(free)} free")
    idx = {w: i for i, w in enumerate(order)}
    k = len(free)
    state = np.zeros((2,) * n + (2 ** k,), dtype=complex)
    eye = np.eye(2 ** k, dtype=complex).reshape((2,) * k + (2 ** k,))
    sl = [0] * n + [slice(None)]
    for w in free:
        sl[idx[w]] = slice(None)
    perm = sorted(range(k), key=lambda j: idx[free[j]])
    state[tuple(sl)] = np.transpose(eye, perm + [k])
    for o in ops:
        state = apply_op(state, o, idx, n)
    return state, free


def aux_classes(op, lay):
    """{wire: kind} for every wire outside op.wires that the rule may touch (zeroed/borrowed/burnable/garbage)."""
    kinds = {}
    t = own_work_wire_type(op)
    if t in (None, "None"):
        # controlled operators carry an explicit work_wire_type (default 'borrowed'); templates hand over clean work wires
        t = "zeroed"
    for w in lay.own:
        kinds[w] = t
    for w, _st, _rest, kind in lay.dyn:
        kinds[w] = kind
    return kinds


def state_prep_wires(ops):
    out = []
    for o in ops:
        if is_state_prep(o):
            out += [w for w in o.wires if w not in out]
    return out


# ------------------------------------------------------------------------------------------------ reference
def legacy_ops(op):
    """The operator's own (legacy) decomposition, expanded to simulable gates; None if it has none."""
    if not getattr(op, "has_decomposition", False):
        return None
    return expand_for_sim(op.decomposition())


def columns_of(U, sys, zero_sys):
    ns = len(sys)
    cols = [c for c in range(2 ** ns) if all(((c >> (ns - 1 - i)) & 1) == 0 for i, w in enumerate(sys) if w in zero_sys)]
    return U[:, cols], cols


def reference_columns(op, zero_sys):
    """Ud (2**ns x ncols): what the rule must do on the admissible inputs (wires in zero_sys fixed to |0>).
    Returns (Ud, cols, source).  Sources: semantic (written from the documentation), table/matrix (operator's matrix),
    state_vector, legacy-decomposition (weakest: the operator's own decomposition simulated by R-sv)."""
    sys = list(op.wires)
    ns = len(sys)
    sem = SEMANTIC.get(type(op).__name__)
    if sem is not None:
        r = sem(op)
        if r is not None:
            Ud, cols = columns_of(np.asarray(r[0], dtype=complex), sys, zero_sys)
            return Ud, cols, "semantic"
    base = getattr(op, "base", None)
    if base is not None and type(op).__name__.startswith("Adjoint") and SEMANTIC.get(type(base).__name__) is not None:
        r = SEMANTIC[type(base).__name__](base)
        if r is not None:
            Ud, cols = columns_of(np.asarray(r[0], dtype=complex).conj().T, sys, zero_sys)
            return Ud, cols, "semantic"
    if is_state_prep(op) and not getattr(op, "has_matrix", False):
        psi = np.asarray(op.state_vector(wire_order=sys), dtype=complex).reshape(-1, 1)
        return psi, [0], "state_vector"
    if getattr(op, "has_matrix", False):
        Ud, cols = columns_of(target_matrix(op), sys, zero_sys)
        return Ud, cols, "matrix"
    base = getattr(op, "base", None)
    if base is not None and type(op).__name__.startswith(("Adjoint", "Pow", "Controlled")) and getattr(base, "has_matrix", False):
        Ud, cols = columns_of(target_matrix(op), sys, zero_sys)
        return Ud, cols, "matrix-of-base"
    ops = legacy_ops(op)
    if ops is None:
        raise Unsimulable("no reference: operator has neither matrix nor decomposition")
    lay = Layout(op, ops)
    if lay.foreign:
        raise Unsimulable("legacy decomposition touches undeclared wires")
    kinds = aux_classes(op, lay)
    zero = set(zero_sys) | set(lay.order[ns:])
    state, free = simulate(lay.order, lay.ops, zero)
    na = lay.n - ns
    M = state.reshape(2 ** ns, 2 ** na, -1)
    Ud = M[:, 0, :]
    if abs(float(np.sum(np.abs(Ud) ** 2)) - Ud.shape[1]) > 1e-6:
        raise Unsimulable("legacy decomposition does not restore its work wires")
    cols = columns_of(np.eye(2 ** ns), sys, zero_sys)[1]
    return Ud, cols, "legacy-decomposition"


SEMANTIC = {}


def fractional_branch(op, M2, Ud):
    """True if `op` is a non-integer power and the emitted matrix M2 is another valid branch of that power
    (commutes with the base and M2**q == base**p for z = p/q)."""
    from fractions import Fraction

    if not type(op).__name__.startswith("Pow"):
        return False
    z = op.z
    try:
        zf = float(z)
    except TypeError:
        return False
    if zf.is_integer() or M2.shape[0] != M2.shape[1]:
        return False
    fr = Fraction(zf).limit_denominator(64)
    if abs(float(fr) - zf) > 1e-12:
        return False
    B = target_matrix(op.base)
    p, q = fr.numerator, fr.denominator
    Bp = np.linalg.matrix_power(B if p >= 0 else B.conj().T, abs(p))
    return bool(np.allclose(np.linalg.matrix_power(M2, q), Bp, atol=1e-7) and np.allclose(M2 @ B, B @ M2, atol=1e-7))


def verify_unitary(op, lay, legacy=None, phase_free=False):
    """Compare the recorded circuit with the reference.  Returns (None, info) if fine, else ((tag, observed, expected), info).

    M[s, a, c, b] (s: op.wires out, a: aux wires out, c: admissible op.wires inputs, b: free aux inputs) has to be
    Ud[s, c] * R[a, b] where Ud are the reference columns and R respects every aux wire's promise:
    zeroed -> ends in |0>, borrowed -> identity, burnable/garbage -> anything.  If every aux wire is restored the
    scalar factor must be exactly 1 (global phase included)."""
    info = {}
    if lay.foreign:
        return ("foreign-wires", [repr(w) for w in lay.foreign], "only op.wires, declared work wires and allocated wires"), info
    sys = lay.sys
    ns = len(sys)
    kinds = aux_classes(op, lay)
    zero_aux = [w for w, k in kinds.items() if k in ("zeroed", "burnable")]
    zero_sys, keep, Ud, cols, source = domain_and_reference(op, lay, legacy)
    info["source"] = source
    state, free = simulate(lay.order, lay.ops, set(zero_aux) | zero_sys)
    aux = lay.order[ns:]
    na = len(aux)
    free_sys = [w for w in free if w in sys]
    free_aux = [w for w in free if w not in sys]
    M = state.reshape(2 ** ns, 2 ** na, 2 ** len(free_sys), 2 ** len(free_aux))
    if keep is not None:
        allc = columns_of(np.eye(2 ** ns), sys, zero_sys)[1]
        sel = [k for k, c in enumerate(allc) if c in set(cols)]
        M = M[:, :, sel, :]
    ncol = Ud.shape[1]
    if ncol != M.shape[2]:
        return ("column-count", M.shape[2], ncol), info
    info["columns"] = ncol
    R = np.einsum("sc,sacb->ab", Ud.conj(), M) / max(1, ncol)
    recon = np.einsum("sc,ab->sacb", Ud, R)
    if float(np.max(np.abs(M - recon))) > 1e-7 or abs(float(np.sum(np.abs(R) ** 2)) - 2 ** len(free_aux)) > 1e-6:
        tag = "state-mismatch" if is_state_prep(op) else "matrix-mismatch"
        if na == 0 and fractional_branch(op, M[:, 0, :, 0], Ud):
            tag = "fractional-power-branch"
        return (tag, _small(M.reshape(2 ** ns * 2 ** na, -1)), _small(Ud)), info
    Rt = R.reshape((2,) * na + (2,) * len(free_aux))
    for i, w in enumerate(aux):
        if kinds.get(w) == "zeroed":
            sl = [slice(None)] * Rt.ndim
            sl[i] = 1
            leak = float(np.max(np.abs(Rt[tuple(sl)])))
            if leak > 1e-7:
                return ("work-wire-not-restored:zeroed", leak, 0.0), info
    for j, w in enumerate(free_aux):
        if kinds.get(w) == "borrowed":
            i = aux.index(w)
            A0 = np.moveaxis(Rt, (i, na + j), (0, 1))
            off = max(float(np.max(np.abs(A0[0, 1]))), float(np.max(np.abs(A0[1, 0]))))
            dif = float(np.max(np.abs(A0[0, 0] - A0[1, 1])))
            if off > 1e-7 or dif > 1e-7:
                return ("work-wire-not-restored:borrowed", [off, dif], [0.0, 0.0]), info
    if all(kinds.get(w) in ("zeroed", "borrowed") for w in aux):
        r = complex(Rt[(0,) * Rt.ndim])
        info["phase_checked"] = not phase_free
        if not phase_free and abs(r - 1) > 1e-7:
            tag = "global-phase"
            if na == 0 and fractional_branch(op, M[:, 0, :, 0], Ud):
                tag = "fractional-power-branch"
            return (tag, {"re": r.real, "im": r.imag}, 1.0), info
    else:
        info["phase_checked"] = False
    return None, info


def _tand_domain(op):
    # documented: TemporaryAND assumes the target qubit in |0>
    return [op.wires[2]], None


def _adj_domain(op):
    # documented: Adjoint(TemporaryAND) assumes the target *output* is |0>, i.e. the input is in the image of
    # TemporaryAND on target |0>: |c0 c1 t> with t = [c == control_values]
    b = getattr(op, "base", None)
    if b is not None and SEMANTIC.get(type(b).__name__) is not None:
        # inverse of a documented basis map: defined on the image of the documented domain (e.g. QROM: target == b_i)
        r = SEMANTIC[type(b).__name__](b)
        if r is None or r[1] is None:
            return [], None
        U, keep = r
        return [], set(int(np.argmax(np.abs(U[:, c]))) for c in keep)
    if type(b).__name__ != "TemporaryAND":
        return [], None
    cv = [int(bool(v)) for v in b.control_values]
    keep = set()
    for c0 in (0, 1):
        for c1 in (0, 1):
            t = int([c0, c1] == cv)
            keep.add(c0 * 4 + c1 * 2 + t)
    return [], keep


DOMAIN = {"TemporaryAND": _tand_domain, "Adjoint2": _adj_domain, "Adjoint": _adj_domain, "AdjointOperation": _adj_domain}


def _small(Mx, lim=8):
    Mx = np.asarray(Mx)
    if Mx.ndim == 2:
        Mx = Mx[:lim, :lim]
    return {"re": np.round(Mx.real, 6).tolist(), "im": np.round(Mx.imag, 6).tolist()}



# ------------------------------------------------------------------------------------------------ measurement branches (C13)
class MidMeasure:  # pylint: disable=too-few-public-methods
    """Stand-in that mc.refsim.run_branches treats as a computational-basis mid-circuit measurement (dispatch is by class
    name).  `id` is chosen so that refsim's history key equals the key of the Pauli measurement it replaces."""

    def __init__(self, wire, postselect, mid):
        self.wires = [wire]
        self.postselect = postselect
        self.reset = True
        self.id = mid
        self.name = "MidMeasure"


def ppm_rewrite(ops):
    """Replace every PauliMeasure(P, wires) by the textbook parity-measurement gadget on a fresh ancilla:
    rotate each wire so that its Pauli becomes Z, CNOT every wire onto the ancilla, measure the ancilla in the
    computational basis (outcome 1 <-> eigenvalue -1, as documented), reset it, undo the rotations.
    Returns (ops, ancilla labels)."""
    import pennylane as qp
    from mc import refsim as RS

    out, anc = [], []
    for o in ops:
        if type(o).__name__ != "PauliMeasure":
            out.append(o)
            continue
        a = f"_ppm{len(anc)}"
        anc.append(a)
        pre, post = [], []
        for ch, w in zip(o.pauli_word, o.wires):
            if ch == "X":
                pre.append(qp.Hadamard(w))
                post.append(qp.Hadamard(w))
            elif ch == "Y":  # H S^dagger Y S H = Z
                pre += [qp.PhaseShift(-math.pi / 2, w), qp.Hadamard(w)]
                post = [qp.PhaseShift(math.pi / 2, w)] + post
                post = [qp.Hadamard(w)] + post
            elif ch != "Z":
                raise Unsimulable(f"pauli word {o.pauli_word}")
        out += pre
        out += [qp.CNOT([w, a]) for w in o.wires]
        out.append(MidMeasure(a, o.postselect, RS._mid(o)))  # pylint: disable=protected-access
        out += post
    return out, anc


def measurement_ops(ops):
    return [o for o in ops if type(o).__name__ in ("MidMeasureMP", "MidMeasure", "PauliMeasure")]


def domain_and_reference(op, lay, legacy):
    """(zero_sys, keep, Ud, cols, source): admissible inputs on op.wires and the reference columns for them."""
    sys = lay.sys
    zero_sys = set(lay.inner_work) | set(w for w in state_prep_wires(lay.ops) if w in sys)
    if legacy is not None:
        zero_sys |= set(w for w in state_prep_wires(legacy) if w in sys)
    dom = DOMAIN.get(type(op).__name__)
    keep = None
    if dom is not None:
        z, keep = dom(op)
        zero_sys |= set(z)
    base = getattr(op, "base", None)
    if dom is None and base is not None and DOMAIN.get(type(base).__name__) is not None:
        # a controlled / adjoint version inherits the documented input domain of its base (work wires in |0>)
        z, _keep_base = DOMAIN[type(base).__name__](base)
        zero_sys |= set(w for w in z if w in sys)
    sem = SEMANTIC.get(type(op).__name__)
    if sem is not None:
        r = sem(op)
        if r is not None and r[1] is not None:
            keep = set(r[1]) if keep is None else (set(keep) & set(r[1]))
    if is_state_prep(op):
        zero_sys = set(sys)
    Ud, cols, source = reference_columns(op, zero_sys)
    if keep is not None:
        sel = [k for k, c in enumerate(cols) if c in keep]
        Ud, cols = Ud[:, sel], [cols[k] for k in sel]
    return zero_sys, keep, Ud, cols, source


def verify_branches(op, lay, legacy=None):
    """C13 oracle.  For every measurement history h with non-zero probability the branch map
    K_h[s, a, c] (s: op.wires out, a: aux out, c: admissible input) must equal Ud[s, c] * r_h[a]:
    same unitary up to a phase in every branch, branch probability |r_h|^2 independent of the input (follows from the
    product form), probabilities summing to one, aux wires in a product state that is |0> for zeroed wires and the
    same pure state in every branch for the others."""
    from mc import refsim as RS

    info = {}
    if lay.foreign:
        return ("foreign-wires", [repr(w) for w in lay.foreign], "only op.wires, declared work wires and allocated wires"), info
    sys = lay.sys
    ns = len(sys)
    kinds = aux_classes(op, lay)
    zero_sys, _keep, Ud, cols, source = domain_and_reference(op, lay, legacy)
    info["source"] = source
    ops, anc = ppm_rewrite(lay.ops)
    order = lay.order + anc
    n = len(order)
    if n > MAX_WIRES:
        raise TooBig(f"{n} wires")
    mids = [RS._mid(o) for o in ops if type(o).__name__ == "MidMeasure" or type(o).__name__ == "MidMeasureMP"]  # pylint: disable=protected-access
    info["measurements"] = len(mids)
    na = n - ns
    K = {}
    for k, c in enumerate(cols):
        init = np.zeros((2,) * n, dtype=complex)
        bits = tuple((c >> (ns - 1 - i)) & 1 for i in range(ns)) + (0,) * na
        init[bits] = 1
        for hist, st in RS.run_branches(ops, order, init=init):
            key = tuple(hist.get(m) for m in mids)
            K.setdefault(key, np.zeros((2 ** ns, 2 ** na, len(cols)), dtype=complex))[:, :, k] = st.reshape(2 ** ns, 2 ** na)
    info["branches"] = len(K)
    ncol = len(cols)
    total, ref_aux = 0.0, None
    for key in sorted(K, key=lambda t: tuple(-1 if x is None else x for x in t)):
        Kh = K[key]
        r = np.einsum("sc,sac->a", Ud.conj(), Kh) / ncol
        p = float(np.sum(np.abs(r) ** 2))
        recon = np.einsum("sc,a->sac", Ud, r)
        if float(np.max(np.abs(Kh - recon))) > 1e-7:
            return ("branch-mismatch", {"history": list(key), "K": _small(Kh.reshape(2 ** ns * 2 ** na, -1))}, _small(Ud)), info
        total += p
        if p < 1e-12:
            continue
        a = r / math.sqrt(p)
        at = a.reshape((2,) * na)
        for i, w in enumerate(order[ns:]):
            if kinds.get(w) == "zeroed" or w in anc:
                sl = [slice(None)] * na
                sl[i] = 1
                if float(np.max(np.abs(at[tuple(sl)]))) > 1e-7:
                    return ("aux-not-zero", {"history": list(key), "wire": repr(w)}, "|0>"), info
            if kinds.get(w) == "borrowed":
                return ("borrowed-wire-measured-rule", repr(w), "not supported by the oracle"), info
        if ref_aux is None:
            ref_aux = a
        elif abs(abs(np.vdot(ref_aux, a)) - 1) > 1e-7:
            return ("aux-state-differs-between-branches", {"history": list(key), "overlap": abs(np.vdot(ref_aux, a))}, 1.0), info
    if abs(total - 1) > 1e-7:
        return ("probability-leak", total, 1.0), info
    return None, info


def run_on_device(op, lay, cols, Ud):
    """Implementation-side cross-check (computational-basis MCM rules only): execute the recorded rule on default.qubit
    with mcm_method='tree-traversal' on one fixed admissible input superposition and compare the reduced density matrix
    on op.wires with Ud rho Ud^dagger."""
    import pennylane as qp

    sys = lay.sys
    ns = len(sys)
    amp = np.array([complex(math.cos(0.4 + 0.9 * k), math.sin(0.7 * k + 0.2)) for k in range(len(cols))])
    amp = amp / np.linalg.norm(amp)
    psi = np.zeros(2 ** ns, dtype=complex)
    for a, c in zip(amp, cols):
        psi[c] = a
    ops = list(lay.ops)
    dev = qp.device("default.qubit", wires=lay.order)
    import itertools

    from mc import refgates as RG

    words = ["".join(w) for w in itertools.product("IXYZ", repeat=ns)][1:]

    @qp.qnode(dev, mcm_method="tree-traversal")
    def circ():
        qp.StatePrep(psi, wires=sys)
        for o in ops:
            qp.apply(o)
        return [qp.expval(qp.pauli.string_to_pauli_word(w, wire_map={x: i for i, x in enumerate(sys)})) for w in words]

    got = np.asarray([float(x) for x in circ()])
    out = Ud @ amp
    want = np.asarray([float(np.real(np.vdot(out, RG.pauli_word_matrix(w) @ out))) for w in words])
    return got, want


# ------------------------------------------------------------------------------------------------ semantic references
# Written from the operator documentation ("Adder(k, mod)|x> = |x+k mod mod>", ...).  Each returns (U, keep):
# U = matrix on op.wires whose admissible columns are filled in, keep = set of admissible column indices (None = all).

def _pos(op, wires):
    ow = list(op.wires)
    return [ow.index(w) for w in wires]


def _val(c, pos, ns):
    v = 0
    for p in pos:
        v = 2 * v + ((c >> (ns - 1 - p)) & 1)
    return v


def _put(c, pos, ns, v):
    for j, p in enumerate(pos):
        bit = (v >> (len(pos) - 1 - j)) & 1
        mask = 1 << (ns - 1 - p)
        c = (c | mask) if bit else (c & ~mask)
    return c


def _basis_map(op, fn, zero=()):
    """U with U|c> = |fn(c)> for admissible c (fn returns None outside the documented domain)."""
    ns = len(op.wires)
    U = np.zeros((2 ** ns, 2 ** ns), dtype=complex)
    keep = set()
    zpos = _pos(op, zero)
    for c in range(2 ** ns):
        if _val(c, zpos, ns) != 0:
            continue
        t = fn(c, ns)
        if t is None:
            continue
        U[t, c] = 1
        keep.add(c)
    return U, keep


def _hp(op, k, default=None):
    return (getattr(op, "hyperparameters", {}) or {}).get(k, default)


def _work(op):
    return [w for w in _inner_work_wires(op)]


def _sem_adder(op):
    x = _pos(op, _hp(op, "x_wires"))
    k, mod = int(_hp(op, "k")), int(_hp(op, "mod"))

    def fn(c, ns):
        v = _val(c, x, ns)
        return None if v >= mod else _put(c, x, ns, (v + k) % mod)

    return _basis_map(op, fn, _work(op))


def _sem_multiplier(op):
    x = _pos(op, _hp(op, "x_wires"))
    k, mod = int(_hp(op, "k")), int(_hp(op, "mod"))

    def fn(c, ns):
        v = _val(c, x, ns)
        return None if v >= mod else _put(c, x, ns, (v * k) % mod)

    return _basis_map(op, fn, _work(op))


def _sem_outadder(op):
    x, y, o = (_pos(op, _hp(op, n)) for n in ("x_wires", "y_wires", "output_wires"))
    mod = int(_hp(op, "mod"))

    def fn(c, ns):
        a, b, z = _val(c, x, ns), _val(c, y, ns), _val(c, o, ns)
        return None if max(a, b, z) >= mod else _put(c, o, ns, (z + a + b) % mod)

    return _basis_map(op, fn, _work(op))


def _sem_outmultiplier(op):
    x, y, o = (_pos(op, _hp(op, n) if _hp(op, n) is not None else getattr(op, n)) for n in ("x_wires", "y_wires", "output_wires"))
    mod = _hp(op, "mod") if _hp(op, "mod") is not None else getattr(op, "mod", None)
    mod = 2 ** len(o) if mod is None else int(mod)
    zeroed = bool(_hp(op, "output_wires_zeroed", getattr(op, "output_wires_zeroed", False)))

    def fn(c, ns):
        a, b, z = _val(c, x, ns), _val(c, y, ns), _val(c, o, ns)
        if max(a, b, z) >= mod or (zeroed and z != 0):
            return None
        return _put(c, o, ns, (z + a * b) % mod)

    return _basis_map(op, fn, _work(op))


def _sem_modexp(op):
    x, o = _pos(op, _hp(op, "x_wires")), _pos(op, _hp(op, "output_wires"))
    base, mod = int(_hp(op, "base")), int(_hp(op, "mod"))

    def fn(c, ns):
        a, b = _val(c, x, ns), _val(c, o, ns)
        if b >= mod:  # the documentation restricts x < mod; b >= mod has no defined image either
            return None
        return _put(c, o, ns, (b * pow(base, a, mod)) % mod)

    return _basis_map(op, fn, _work(op))


def _sem_semiadder(op):
    xw = _hp(op, "x_wires") if _hp(op, "x_wires") is not None else op.x_wires
    yw = _hp(op, "y_wires") if _hp(op, "y_wires") is not None else op.y_wires
    x, y = _pos(op, xw), _pos(op, yw)

    def fn(c, ns):
        return _put(c, y, ns, (_val(c, x, ns) + _val(c, y, ns)) % (2 ** len(y)))

    return _basis_map(op, fn, _work(op))


def _sem_outsquare(op):
    x, o = _pos(op, _hp(op, "x_wires")), _pos(op, _hp(op, "output_wires"))
    zeroed = bool(_hp(op, "output_wires_zeroed", False))

    def fn(c, ns):
        a, z = _val(c, x, ns), _val(c, o, ns)
        if zeroed and z != 0:
            return None
        return _put(c, o, ns, (z + a * a) % (2 ** len(o)))

    return _basis_map(op, fn, _work(op))


def _sem_incrementer(op):
    work = _work(op)
    reg = _pos(op, [w for w in op.wires if w not in work])

    def fn(c, ns):
        return _put(c, reg, ns, (_val(c, reg, ns) + 1) % (2 ** len(reg)))

    return _basis_map(op, fn, work)


def _sem_flipsign(op):
    ns = len(op.wires)
    st = _hp(op, "state")
    if st is None:
        st = getattr(op, "state", None)
    st = np.asarray(st).astype(int).ravel()
    idx = int("".join(str(int(b)) for b in st), 2) if st.size == ns else int(st[0])
    U = np.eye(2 ** ns, dtype=complex)
    U[idx, idx] = -1
    return U, None


def _sem_grover(op):
    work = _work(op)
    reg = [w for w in op.wires if w not in work]
    n = len(reg)
    G = 2 * np.full((2 ** n, 2 ** n), 1 / 2 ** n) - np.eye(2 ** n)
    if not work:
        return G.astype(complex), None
    # work wires are listed after the search register in op.wires
    if list(op.wires) != reg + work:
        return None
    U = np.kron(G, np.eye(2 ** len(work))).astype(complex)
    return U, None


def _sem_qft(op):
    n = len(op.wires)
    d = 2 ** n
    j, k = np.meshgrid(np.arange(d), np.arange(d), indexing="ij")
    return np.exp(2j * np.pi * j * k / d) / math.sqrt(d), None


def _sem_select_pauli_rot(op):
    from mc import refgates as RG

    angles = np.asarray(getattr(op, "angles", None) if getattr(op, "angles", None) is not None else op.data[0], dtype=float)
    cw = list(getattr(op, "control_wires", None) if getattr(op, "control_wires", None) is not None else _hp(op, "control_wires"))
    tw = getattr(op, "target_wire", None)
    if tw is None:
        tw = _hp(op, "target_wire")
    tw = list(tw) if hasattr(tw, "__len__") and not isinstance(tw, str) else [tw]
    axis = getattr(op, "rot_axis", None) or _hp(op, "rot_axis")
    if list(op.wires) != cw + tw:
        return None
    d = len(angles)
    U = np.zeros((2 * d, 2 * d), dtype=complex)
    for i, a in enumerate(angles):
        U[2 * i:2 * i + 2, 2 * i:2 * i + 2] = RG.pauli_rot(float(a), axis)
    return U, None


def _sem_qrom(op):
    """QROM|i>|0>|0_work> = |i>|b_i>|0_work> (documented for target |0>; clean work wires unless clean=False)."""
    g = lambda n: _hp(op, n) if _hp(op, n) is not None else getattr(op, n, None)
    if g("work_wires") is not None and len(g("work_wires")) and not bool(g("clean")):
        return None
    bits = [str(b) if isinstance(b, str) else "".join(str(int(x)) for x in b) for b in g("bitstrings")]
    cw, tw = _pos(op, list(g("control_wires"))), _pos(op, list(g("target_wires")))

    def fn(c, ns):
        i = _val(c, cw, ns)
        if i >= len(bits) or _val(c, tw, ns) != 0:
            return None
        return _put(c, tw, ns, int(bits[i], 2))

    return _basis_map(op, fn, _work(op))


def _sem_select(op):
    """Select|i>|psi> = |i> U_i|psi>; partial=True is documented for control states i < len(ops) only."""
    from mc import refsim as RS

    ops = list(_hp(op, "ops"))
    cw = list(_hp(op, "control"))
    work = [w for w in (_hp(op, "work_wires") or []) if w in op.wires]
    tw = [w for w in op.wires if w not in cw and w not in work]
    if list(op.wires) != cw + tw or work:
        return None
    d = 2 ** len(tw)
    K = len(ops)
    U = np.zeros((2 ** len(cw) * d, 2 ** len(cw) * d), dtype=complex)
    keep = set()
    partial = bool(_hp(op, "partial"))
    for i in range(2 ** len(cw)):
        if i < K:
            Ui = RS.embed(RS.op_matrix(ops[i]), list(ops[i].wires), tw)
        elif partial:
            continue
        else:
            Ui = np.eye(d)
        U[i * d:(i + 1) * d, i * d:(i + 1) * d] = Ui
        keep |= set(range(i * d, (i + 1) * d))
    return U, (keep if partial else None)


SEMANTIC.update({"Select": _sem_select, "QROM": _sem_qrom, "Adder": _sem_adder, "Multiplier": _sem_multiplier, "OutAdder": _sem_outadder, "OutMultiplier": _sem_outmultiplier,
                 "ModExp": _sem_modexp, "SemiAdder": _sem_semiadder, "OutSquare": _sem_outsquare, "Incrementer": _sem_incrementer,
                 "FlipSign": _sem_flipsign, "GroverOperator": _sem_grover, "QFT": _sem_qft, "SelectPauliRot": _sem_select_pauli_rot})


# ------------------------------------------------------------------------------------------------ enumeration
_CASES = {}


def enumerate_cases(tier):
    """Complete, deterministic list of {"key", "expr", "rule"} specs + coverage bookkeeping (shared by C10/C11/C13)."""
    if tier in _CASES:
        return _CASES[tier]
    reg = registry()
    keys = registry_keys() + [k for k in EXTRA_KEYS if k not in reg]
    cases, seen = [], set()
    no_recipe, unbuildable, key_hit, rules_seen, norules = [], [], {}, {}, []
    n_inst = 0
    for key in keys:
        exprs = instance_exprs(key, tier)
        if exprs is None:
            no_recipe.append(key)
            continue
        for e in exprs:
            try:
                op = build(e)
            except Exception as x:  # noqa: BLE001 - reported in the evidence, never silently dropped
                unbuildable.append([key, e, f"{type(x).__name__}: {x}"[:120]])
                continue
            name = op_name(op)
            rl = rules_for(op)
            if not rl:
                norules.append([name, e])
                continue
            n_inst += 1
            key_hit[name] = key_hit.get(name, 0) + 1
            for rname, _r in rl:
                spec = {"key": name, "expr": e, "rule": rname}
                k = (e, rname)
                if k in seen:
                    continue
                seen.add(k)
                cases.append(spec)
                rules_seen.setdefault(name, set()).add(rname)
    # optional extra source: the shared operator catalogue, if it is importable
    cat_info = {"used": False}
    try:
        import json

        from mc import x_catalog

        cat_names = set(x_catalog.names())
        n_cat, cat_fail = 0, []
        for key in keys:
            if key not in cat_names:
                continue
            try:
                specs = x_catalog.instances(key, "few" if tier == "quick" else "quick")
            except Exception as x:  # noqa: BLE001
                cat_fail.append([key, f"{type(x).__name__}: {x}"[:100]])
                continue
            for sp in specs[: 4 if tier == "quick" else 24]:
                e = "CAT:" + json.dumps(sp, sort_keys=True)
                try:
                    op = build(e)
                    if len(op.wires) + len(_own_work_wires(op)) > 10:
                        continue
                    name = op_name(op)
                    rl = rules_for(op)
                except Exception as x:  # noqa: BLE001
                    cat_fail.append([key, f"{type(x).__name__}: {x}"[:100]])
                    continue
                if not rl:
                    continue
                n_cat += 1
                key_hit[name] = key_hit.get(name, 0) + 1
                for rname, _r in rl:
                    if (e, rname) not in seen:
                        seen.add((e, rname))
                        cases.append({"key": name, "expr": e, "rule": rname})
                        rules_seen.setdefault(name, set()).add(rname)
        cat_info = {"used": True, "instances": n_cat, "failures": cat_fail[:10]}
    except ImportError as x:
        cat_info = {"used": False, "reason": str(x)[:100]}
    reg_rules = {k: [r.name for r in v] for k, v in reg.items() if len(v)}
    missing_rules = {k: [r for r in v if r not in rules_seen.get(k, ())] for k, v in reg_rules.items()}
    missing_rules = {k: v for k, v in missing_rules.items() if v}
    cases.sort(key=lambda s: (len(s["expr"]), s["key"], s["expr"], s["rule"]))
    cov = {
        "alphabet": {"angles": A, "wire_pools": [p[:8] for p in POOLS], "powers": EXPO_QUICK if tier == "quick" else EXPO,
                     "control_configs": CTRL_CONFIGS_QUICK if tier == "quick" else CTRL_CONFIGS_THOROUGH,
                     "extra_symbolic_keys": EXTRA_KEYS},
        "bound": {"max_wires": MAX_WIRES, "max_log2_tensor_cells": MAX_CELLS, "tier": tier},
        "registry_keys": len(reg_rules), "registry_rules": sum(len(v) for v in reg_rules.values()),
        "instances": n_inst, "distinct_operator_names": len(key_hit),
        "registry_keys_without_recipe": no_recipe,
        "registry_keys_without_instance": sorted(k for k in reg_rules if k not in key_hit),
        "registry_rules_never_listed": missing_rules,
        "unbuildable_recipes": unbuildable[:20],
        "instances_without_rules": norules[:20],
        "rule_listing_crashes": sorted(set(LISTING_CRASHES)),
        "shared_catalogue": cat_info,
    }
    _CASES[tier] = (cases, cov)
    return cases, cov


def cases_for_keys(keys, tier, exclude=()):
    """Cases of the given registry keys in the given tier's instance table, minus those already in `exclude`."""
    have = set((c["expr"], c["rule"]) for c in exclude)
    out = []
    for key in keys:
        for e in instance_exprs(key, tier) or []:
            op = build(e)
            name = op_name(op)
            for rname, _r in rules_for(op):
                if (e, rname) not in have:
                    have.add((e, rname))
                    out.append({"key": name, "expr": e, "rule": rname})
    return out


def compiler_gated_cases(tier, only=None):
    """Cases for rules that are inapplicable only because no compiler is active (found by re-evaluating the
    applicability conditions with pennylane.compiler.active patched to True)."""
    from unittest import mock

    cases = only if only is not None else enumerate_cases(tier)[0]
    out = []
    cache = {}
    for s in cases:
        e = s["expr"]
        if e not in cache:
            op = build(e)
            params = decomp_args(op)[0]
            plain = {n: r.is_applicable(**params) for n, r in rules_for(op)}
            with mock.patch("pennylane.compiler.active", return_value=True):
                forced = {n: r.is_applicable(**params) for n, r in rules_for(op)}
            cache[e] = (plain, forced)
        plain, forced = cache[e]
        if forced.get(s["rule"]) and not plain.get(s["rule"]):
            out.append({**s, "force_compiler": True})
    return out


# ------------------------------------------------------------------------------------------------ whole circuits (C12)
def circuit_wires(ops):
    out = []
    for o in ops:
        for w in o.wires:
            if w not in out:
                out.append(w)
    return out


def verify_circuit(in_ops, out_ops):
    """Does `out_ops` (may contain Allocate/Deallocate and the input operators' declared work wires) implement
    `in_ops` up to one global phase, returning every work wire as promised?  Returns (violation | None, info)."""
    import types

    sys = circuit_wires(in_ops)
    ns = len(sys)
    own, wtype = [], {}
    for o in in_ops:
        for w in _own_work_wires(o):
            if w in sys:
                continue
            t = own_work_wire_type(o)
            t = "borrowed" if t in (None, "None") else t
            if w not in own:
                own.append(w)
                wtype[w] = t
            elif t != wtype[w]:
                # the same work wire declared differently by two operators of the circuit: the circuit is only defined where EVERY
                # declaration holds, i.e. the wire starts in |0> as soon as one operator needs it zeroed (borrowing operators restore
                # it in between); it must come back to |0> unless some operator is allowed to burn it
                kinds_seen = {t, wtype[w]}
                wtype[w] = "burnable" if "burnable" in kinds_seen else "zeroed"
    pseudo = types.SimpleNamespace(wires=sys, hyperparameters={"work_wires": own}, work_wire_type=None)
    ref_ops = expand_for_sim(list(in_ops))
    Uin, _ = simulate(sys, ref_ops, set())
    Uin = Uin.reshape(2 ** ns, 2 ** ns)
    lay = Layout(pseudo, expand_for_sim(list(out_ops)))
    info = {"n_in": len(in_ops), "n_out": len(lay.ops), "wires": lay.n}
    if lay.foreign:
        return ("foreign-wires", [repr(w) for w in lay.foreign], "only circuit wires, declared work wires and allocated wires"), info
    kinds = {w: wtype[w] for w in own}
    for w, _st, _rest, kind in lay.dyn:
        kinds[w] = kind
    zero_aux = [w for w, k in kinds.items() if k in ("zeroed", "burnable")]
    state, free = simulate(lay.order, lay.ops, set(zero_aux))
    aux = lay.order[ns:]
    na = len(aux)
    free_aux = [w for w in free if w not in sys]
    M = state.reshape(2 ** ns, 2 ** na, 2 ** ns, 2 ** len(free_aux))
    R = np.einsum("sc,sacb->ab", Uin.conj(), M) / 2 ** ns
    recon = np.einsum("sc,ab->sacb", Uin, R)
    if float(np.max(np.abs(M - recon))) > 1e-7 or abs(float(np.sum(np.abs(R) ** 2)) - 2 ** len(free_aux)) > 1e-6:
        return ("circuit-changed", _small(M.reshape(2 ** ns * 2 ** na, -1)), _small(Uin)), info
    Rt = R.reshape((2,) * na + (2,) * len(free_aux))
    for i, w in enumerate(aux):
        if kinds.get(w) == "zeroed":
            sl = [slice(None)] * Rt.ndim
            sl[i] = 1
            if float(np.max(np.abs(Rt[tuple(sl)]))) > 1e-7:
                return ("work-wire-not-restored:zeroed", float(np.max(np.abs(Rt[tuple(sl)]))), 0.0), info
    for j, w in enumerate(free_aux):
        if kinds.get(w) == "borrowed":
            i = aux.index(w)
            A0 = np.moveaxis(Rt, (i, na + j), (0, 1))
            off = max(float(np.max(np.abs(A0[0, 1]))), float(np.max(np.abs(A0[1, 0]))))
            dif = float(np.max(np.abs(A0[0, 0] - A0[1, 1])))
            if off > 1e-7 or dif > 1e-7:
                return ("work-wire-not-restored:borrowed", [off, dif], [0.0, 0.0]), info
    return None, info
