#!/venv/bin/python
"""usage: tools/mark_fixed.py <prop> <commit> <signature-substring> [...]  — turns matching `known` entries into `fixed` documentation entries."""
import json, sys
prop, commit, subs = sys.argv[1], sys.argv[2], sys.argv[3:]
p = f'/verif/known_findings/{prop}.json'
d = json.load(open(p)); n = 0
for f in d['findings']:
    if f.get('status', 'known') == 'known' and any(s in f['signature'] for s in subs):
        f['status'] = 'fixed'; f['commit'] = commit
        if not f['what_fails'].startswith('fixed:'):
            f['what_fails'] = f'fixed: property={prop} {commit} ' + f['what_fails']
        n += 1; print('fixed:', f['signature'])
json.dump(d, open(p, 'w'), indent=1)
print(n, 'entries')
