#!/bin/bash
# usage: tools/runall.sh [quick|thorough] <ids...>   — runs each check, prints one line per check
tier=$1; shift
for p in "$@"; do
  s=$(date +%s)
  out=$(cd /verif && ./run $p --tier $tier 2>&1); code=$?
  e=$(date +%s)
  echo "$p exit=$code wall=$((e-s))s $(echo "$out" | grep -E "^\[$p\]" | cut -c1-200)"
  echo "$out" | grep -E "VIOLATION|HARNESS|WARNING" | head -5 | cut -c1-220
done
