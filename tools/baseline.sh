#!/bin/bash
# usage: tools/baseline.sh [<repo dir or worktree>]   — runs the pinned suite there and reports stable-pass tests that no longer pass
d=${1:-/repo}
x=$(mktemp /var/tmp/vs/junit.XXXXXX.xml)
(cd "$d" && /venv/bin/python -m pytest -ra -q -p no:cacheprovider --timeout=900 --continue-on-collection-errors --junitxml="$x" >/dev/null 2>&1)
/venv/bin/python - "$x" <<'PY'
import json, sys, xml.etree.ElementTree as ET
b = json.load(open('/root/.vp/BASELINE.json'))
passed, failed = set(), set()
for tc in ET.parse(sys.argv[1]).getroot().iter('testcase'):
    tid = (tc.get('classname') or '') + '::' + (tc.get('name') or '')
    if tc.find('failure') is not None or tc.find('error') is not None: failed.add(tid)
    elif tc.find('skipped') is not None: pass
    else: passed.add(tid)
passed -= failed
missing = [t for t in b['stable_pass'] if t not in passed]
print(f"BASELINE stable={len(b['stable_pass'])} passed_now={len(passed)} missing={len(missing)}")
for m in missing[:20]: print("  MISSING", m)
sys.exit(1 if missing else 0)
PY
rc=$?; rm -f "$x"; exit $rc
