#!/bin/bash
# usage: tools/seed_regress.sh [ids...]   — re-runs every seeded change (seeded/<id>/patch.diff) against the CURRENT check of its property
# on a scratch copy (tools/mut.sh) and records the verdict in seeded/<id>/meta.json ("final_run"). 3 seeds in parallel.
cd /verif
ids=${@:-$(ls seeded)}
one() {
  id=$1
  out=$(tools/mut.sh seeded/$id/patch.diff ${id%%_*} 2>&1)   # seeded/C17_2 is a second seed for C17
  /venv/bin/python - "$id" "$out" <<'PY'
import json,sys,re,datetime
id,out=sys.argv[1:3]
p=f'/verif/seeded/{id}/meta.json'; m=json.load(open(p))
sigs=re.findall(r'VIOLATION property=\S+ replay=\S+\s+# (.*?) \(\d+ case', out)
m['final_run']={'detected': ('exit=1' in out and 'VIOLATION' in out), 'exit': (re.findall(r'exit=(\d+)', out) or ['?'])[0], 'signatures': sigs[:6],
                'date': datetime.date.today().isoformat(), 'command': f'tools/mut.sh seeded/{id}/patch.diff {id.split("_")[0]}'}
json.dump(m,open(p,'w'),indent=1)
print(id, m['final_run']['detected'], m['final_run']['exit'], sigs[:2])
PY
}
export -f one
printf "%s\n" $ids | xargs -P ${SEED_PAR:-3} -I{} bash -c 'one {}'
