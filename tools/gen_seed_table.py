#!/venv/bin/python
"""Regenerates the seeded-change table of DESIGN.md §12 (between the SEED-TABLE markers) from seeded/*/meta.json."""
import json, glob, re, os
rows=[]
for p in sorted(glob.glob('/verif/seeded/*/meta.json')):
    m=json.load(open(p)); fr=m.get('final_run',{})
    first='caught' if m.get('detected') else '**missed**'
    now=('caught: `'+'`, `'.join(s[:70] for s in fr.get('signatures',[])[:2])+'`') if fr.get('detected') else ('**not caught**' if fr else 'n/a')
    esc=lambda s: str(s).replace('|','\\|').replace('\n',' ')
    rows.append(f"| {os.path.basename(os.path.dirname(p))} | {esc(m.get('needs_to_manifest','(see demo.py)'))} | {first} | {esc(m.get('strengthening','–'))} | {esc(now)} |")
table="| seed | what it needs to manifest | first verdict | what was strengthened | final run against the current check (`tools/seed_regress.sh`) |\n|---|---|---|---|---|\n"+"\n".join(rows)
d=open('/verif/DESIGN.md').read()
a,b='<!-- SEED-TABLE-BEGIN -->','<!-- SEED-TABLE-END -->'
assert a in d and b in d
d=d[:d.index(a)+len(a)]+"\n"+table+"\n"+d[d.index(b):]
open('/verif/DESIGN.md','w').write(d)
n=len(rows); det=sum(1 for p in glob.glob('/verif/seeded/*/meta.json') if json.load(open(p)).get('final_run',{}).get('detected'))
first=sum(1 for p in glob.glob('/verif/seeded/*/meta.json') if json.load(open(p)).get('detected'))
print(f"seeds={n} caught_at_first_run={first} caught_now={det}")
