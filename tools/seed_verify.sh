#!/bin/bash
# usage: [WT_ROOT=/tmp/wt2 SUFFIX=_2] tools/seed_verify.sh <ID> [<check ids to run, default ID>]  — confirms a sub-agent's seeded change and runs our checks against it
id=$1; shift; checks=${@:-$id}
wt=${WT_ROOT:-/tmp/wt}/$id; out=/verif/seeded/$id${SUFFIX:-}; mkdir -p $out; export SEED_DIR=$(basename $out)
cd $wt || exit 2
# the agent's patch file is the source of truth (git stash is shared between worktrees and must not be used)
if [ -f patch_$id.diff ]; then cp patch_$id.diff $out/patch.diff; else git diff -- pennylane > $out/patch.diff; fi
cp demo_$id.py $out/demo.py 2>/dev/null || cp demo_*.py $out/demo.py
demo=$(ls demo_$id.py demo_*.py 2>/dev/null | head -1)
git checkout -q -- pennylane
PYTHONPATH=$wt timeout 1200 /venv/bin/python $demo > $out/demo_without.log 2>&1; without=$?
git apply $out/patch.diff || { echo "PATCH DOES NOT APPLY"; exit 2; }
PYTHONPATH=$wt timeout 1200 /venv/bin/python $demo > $out/demo_with.log 2>&1; with=$?
base=$(/verif/tools/baseline.sh $wt 2>&1 | head -3)
res=""
for c in $checks; do
  r=$(cd /verif && tools/mut.sh $out/patch.diff $c 2>&1 | grep -E "exit=|VIOLATION|HARNESS" | head -4 | tr '\n' ';')
  res="$res $r"
done
/venv/bin/python - "$id" "$with" "$without" "$base" "$res" "$checks" <<'PY'
import json,sys,os
id,w,wo,base,res,checks=sys.argv[1:7]
props={json.loads(l)['id']:json.loads(l) for l in open('/verif/properties.jsonl')}
meta={"property":id,"title":props[id]["title"],"demo_exit_with_change":int(w),"demo_exit_without_change":int(wo),
 "pinned_suite_with_change":base.strip(),"our_checks_run":checks.split(),"our_checks_result":res.strip(),
 "confirmed": int(w)!=0 and int(wo)==0 and "missing=0" in base,
 "detected": "exit=1" in res and "VIOLATION" in res,
 "ran":["demo with change (git apply patch)","demo without change (git checkout -- pennylane)","tools/baseline.sh <worktree>","tools/mut.sh seeded/%s/patch.diff %s"%(os.environ["SEED_DIR"],checks)]}
p=f'/verif/seeded/{os.environ["SEED_DIR"]}/meta.json'
old=json.load(open(p)) if os.path.exists(p) else {}
old.update(meta); json.dump(old,open(p,'w'),indent=1)
print(json.dumps(meta,indent=1))
PY
