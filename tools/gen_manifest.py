#!/usr/bin/env python3
"""Regenerate /verif/MANIFEST.json from the check modules' own metadata (constants read with ast, nothing executed)."""
import ast, json, os, sys
ROOT = os.path.dirname(os.path.dirname(os.path.abspath(__file__)))
props = [json.loads(l) for l in open(os.path.join(ROOT, "properties.jsonl"))]
NA_FILE = os.path.join(ROOT, "tools", "not_applicable.json")
na_reasons = json.load(open(NA_FILE)) if os.path.exists(NA_FILE) else {}

def consts(path):
    out = {}
    tree = ast.parse(open(path).read())
    for node in tree.body:
        if isinstance(node, ast.Assign) and len(node.targets) == 1 and isinstance(node.targets[0], ast.Name):
            try:
                out[node.targets[0].id] = ast.literal_eval(node.value)
            except Exception:
                pass
    return out

READY_FILE = os.path.join(ROOT, "tools", "ready.txt")
ready = set(open(READY_FILE).read().split()) if os.path.exists(READY_FILE) else None
checks, na = [], []
for p in props:
    pid = p["id"]
    path = os.path.join(ROOT, "checks", f"{pid}.py")
    if os.path.exists(path) and pid not in na_reasons and (ready is None or pid in ready):
        c = consts(path)
        entry = {
            "property_id": pid,
            "quick_cmd": f"./run {pid} --tier quick",
            "thorough_cmd": f"./run {pid} --tier thorough",
            "evidence_file": f"/verif/evidence/{pid}.json",
            "replay_cmd_template": f"./run {pid} --replay {{path}}",
            "engine": "mc",
            "level_claimed": {"category": c.get("LEVEL", "exploration"), "text": c["LEVEL_TEXT"], "design_ref": "DESIGN.md §" + c.get("DESIGN_REF", "5")},
            "level_note": c["LEVEL_NOTE"],
            "technique": c["TECHNIQUE"],
        }
        checks.append(entry)
    else:
        na.append({"property_id": pid, "reason": na_reasons.get(pid, ("check written but not yet validated on the unchanged tree; not claimed" if os.path.exists(path) else "no check built yet (planned: DESIGN.md §5); not claimed"))})

manifest = {
    "version": 1,
    "setup_cmd": "/venv/bin/python -m compileall -q mc checks >/dev/null; ./run --help >/dev/null 2>&1; true",
    "hooks": {
        "guard": "PENNYLANE_VERIF",
        "enable": "no source hooks: every seam is installed from the harness side (scripted RNG objects, executor subclasses, sys.settrace); PennyLane is imported from /repo's working tree (editable install)",
        "baseline_off_cmd": "cd /repo && /venv/bin/python -m pytest -ra -q -p no:cacheprovider --timeout=900 --continue-on-collection-errors",
        "source_commits": [],
        "add_only": True,
    },
    "engines": [{"name": "mc", "path": "/verif/mc", "serves_properties": [c["property_id"] for c in checks],
                 "kind_free_text": "hand-written bounded-exhaustive explorers over the real implementation (product/sequence enumerators, explicit-state BFS over histories, deviation-bounded answer trees for owned nondeterminism, schedule explorers) + TLC models with edge-by-edge conformance replay"}],
    "checks": checks,
    "notes": "See DESIGN.md. Every check: ./run <id> --tier quick|thorough; exit 0 / exit 1 + VIOLATION line / exit 2 harness error. known_findings/<id>.json (one committed file per property, never written at run time) lists genuine defects recorded rather than repaired and, as documentation only, the ones repaired in /repo (status fixed: these suppress nothing).",
    "not_applicable": na,
}
json.dump(manifest, open(os.path.join(ROOT, "MANIFEST.json"), "w"), indent=1)
try:
    import jsonschema
    jsonschema.validate(manifest, json.load(open(os.path.join(ROOT, "mc", "schemas", "MANIFEST.schema.json"))))
    print(f"MANIFEST ok: {len(checks)} checks, {len(na)} not claimed")
except ImportError:
    print("written (jsonschema not available to validate)")
