#!/bin/bash
# usage: tools/mut.sh <patch.diff> <prop> [<prop>...]     (env TIER=quick|thorough)
# Applies the patch to a scratch copy of /repo/pennylane (never to /repo), runs the named checks against
# the copy (VERIF_REPO), prints their verdict lines, removes the copy.
set -u
patch=$(readlink -f "$1"); shift
mkdir -p /var/tmp/vs; d=$(mktemp -d /var/tmp/vs/mut.XXXXXX) || exit 2
mkdir -p "$d"
rsync -a --exclude __pycache__ /repo/pennylane "$d"/
if ! (cd "$d" && patch -p1 -s < "$patch"); then echo "PATCH-FAILED"; rm -rf "$d"; exit 2; fi
rc=0
for p in "$@"; do
  out=$(cd /verif && VERIF_REPO="$d" VERIF_EVIDENCE_DIR="$d/evidence" ./run "$p" --tier "${TIER:-quick}" 2>&1)
  code=$?
  echo "== $p exit=$code"
  echo "$out" | grep -E "VIOLATION|HARNESS|^\[C" | head -8
  [ $code -eq 1 ] || rc=1
done
rm -rf "$d"
exit $rc   # 0 = every named check reported a violation (mutant detected)
