#!/bin/bash
# usage: tools/mutants_regress.sh [patch files...]  — runs every builder mutant (mutants/<id>_*.diff) against the quick check of its property
# on a scratch copy (tools/mut.sh) and appends one line per mutant to mutants/RESULTS.tsv: mutant, property, verdict, first signature.
cd /verif
files=${@:-$(ls mutants/*.diff)}
one() {
  f=$1; id=$(basename $f | cut -d_ -f1)
  out=$(tools/mut.sh $f $id 2>&1)
  if echo "$out" | grep -q "PATCH-FAILED"; then v="patch-does-not-apply"
  elif echo "$out" | grep -q "exit=1" && echo "$out" | grep -q "VIOLATION"; then v="caught"
  elif echo "$out" | grep -q "exit=0"; then v="not-caught"
  else v="harness-error"; fi
  sig=$(echo "$out" | grep -m1 "VIOLATION" | sed 's/.*# //' | cut -c1-90)
  printf "%s\t%s\t%s\t%s\n" "$(basename $f)" "$id" "$v" "$sig" >> /verif/mutants/RESULTS.tsv
}
export -f one
printf "%s\n" $files | xargs -P ${MUT_PAR:-3} -I{} bash -c 'one {}'
