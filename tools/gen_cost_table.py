#!/venv/bin/python
"""Rewrites the measured-cost table of DESIGN.md §9 (between COST-TABLE markers) from evidence/*.json (last quick run of each check)."""
import json, glob
rows = []
tot = 0.0
for p in sorted(glob.glob('/verif/evidence/C*.json')):
    e = json.load(open(p)); c = e['coverage']
    n = c.get('evaluations') or c.get('states') or 0
    extra = []
    for k in ('states', 'transitions', 'traces_validated_against_impl', 'schedules'):
        if k in c: extra.append(f"{k}={c[k]}")
    tot += float(e.get('wall_s', 0))
    rows.append(f"| {e['property_id']} | {e['tier']} | {e['level']} | {n} | {c.get('distinct_outcomes', '')} | {len(c.get('known_findings_hit', {}))} | {round(float(e.get('wall_s', 0)))} | {' '.join(extra)} |")
table = ("| check | tier | level | cases evaluated | distinct outcomes | known-finding classes hit | wall s | model-checking counters |\n|---|---|---|---|---|---|---|---|\n"
         + "\n".join(rows) + f"\n\nSum of wall times: {round(tot / 60)} min (checks run one after the other on this 16-core sandbox).")
d = open('/verif/DESIGN.md').read()
a, b = '<!-- COST-TABLE-BEGIN -->', '<!-- COST-TABLE-END -->'
assert a in d and b in d
d = d[:d.index(a) + len(a)] + "\n" + table + "\n" + d[d.index(b):]
open('/verif/DESIGN.md', 'w').write(d)
print(len(rows), 'rows;', round(tot / 60), 'min')
