#!/usr/bin/env python3
"""usage: mkmut.py <mutant-name> <repo-relative-file> <old> <new> [<old2> <new2> ...]   -> /verif/mutants/<name>.diff
Each <old> must occur exactly once in the file (taken from /repo's current working tree)."""
import difflib, sys
name, rel, pairs = sys.argv[1], sys.argv[2], sys.argv[3:]
src = open('/repo/' + rel).read()
new = src
for old, rep in zip(pairs[0::2], pairs[1::2]):
    assert new.count(old) == 1, (new.count(old), old)
    new = new.replace(old, rep)
d = difflib.unified_diff(src.splitlines(True), new.splitlines(True), 'a/' + rel, 'b/' + rel)
open(f'/verif/mutants/{name}.diff', 'w').write(''.join(d))
print('wrote', name)
